#!/venv/bin/python
"""Entry point of the runtime-monitoring checks.

    check.py <Cxx> [--tier quick|thorough] [--replay <witness.json>] [--shards N]

Exit 0: property held on everything observed (coverage in evidence/<id>.json)
Exit 1: violation observed -> line  VIOLATION property=<id> replay=<path>
Exit 2: inconclusive (deciding monitor never reached, shard died/timed out, coverage class never hit)
"""
import argparse
import importlib
import json
import os
import shutil
import subprocess
import sys
import tempfile
import time
from concurrent.futures import ThreadPoolExecutor

HERE = os.path.dirname(os.path.abspath(__file__))
sys.path.insert(0, HERE)
sys.path.insert(1, os.path.join(HERE, ".deps"))
PY = "/venv/bin/python"


def ensure_deps():
    if os.path.isdir(os.path.join(HERE, ".deps", "icontract")):
        return
    subprocess.run([PY, "-m", "pip", "install", "-q", "--no-index", "--find-links", "/opt/veriftools/wheels",
                    "--target", os.path.join(HERE, ".deps"), "icontract"], check=True,
                   stdout=subprocess.DEVNULL, stderr=subprocess.STDOUT)


def load_known():
    known, fixed = [], []
    p = os.path.join(HERE, "known_findings.jsonl")
    if os.path.exists(p):
        for line in open(p):
            line = line.strip()
            if not line or line.startswith("#"):
                continue
            if line.startswith("fixed:"):
                fixed.append(line)
                continue
            known.append(json.loads(line))
    return known, fixed


def run_shards(prop, tier, seed, nshards, repo, budget_s, watchdog_s, work, replay=None, params=None):
    env = dict(os.environ)
    env["PYTHONPYCACHEPREFIX"] = os.path.join(work, "pyc")
    env["PYTHONDONTWRITEBYTECODE"] = "1"
    env.setdefault("PYTHONHASHSEED", "0")
    env.pop("PYTHONPATH", None)
    jobs = []
    for k in range(nshards):
        out = os.path.join(work, f"shard{k}.json")
        jobs.append({"prop": prop, "tier": tier, "seed": seed, "shard": k, "nshards": nshards, "repo": repo,
                     "out": out, "budget_s": budget_s, "replay": replay, "params": params or {}})

    def one(job):
        log = job["out"] + ".log"
        try:
            with open(log, "w") as lf:
                p = subprocess.run([PY, os.path.join(HERE, "rv", "worker.py"), json.dumps(job)], cwd=work, env=env,
                                   stdout=lf, stderr=subprocess.STDOUT, timeout=watchdog_s)
            rc = p.returncode
        except subprocess.TimeoutExpired:
            if os.path.exists(job["out"] + ".partial"):
                r = json.load(open(job["out"] + ".partial"))
                r.update({"ok": False, "partial": True, "error": f"watchdog {watchdog_s}s fired (inconclusive); violations recorded before that are kept", "shard": job["shard"]})
                return r
            return {"ok": False, "error": f"watchdog {watchdog_s}s fired (inconclusive)", "shard": job["shard"]}
        if not os.path.exists(job["out"]):
            if os.path.exists(job["out"] + ".partial"):
                r = json.load(open(job["out"] + ".partial"))
                r.update({"ok": False, "partial": True, "error": f"worker died rc={rc}; violations recorded before that are kept", "shard": job["shard"], "trace": open(log).read()[-1500:]})
                return r
            tail = open(log).read()[-1500:]
            return {"ok": False, "error": f"worker died rc={rc}", "trace": tail, "shard": job["shard"], "signal": rc in (-4, -6, -7, -8, -11)}  # ILL ABRT BUS FPE SEGV; a SIGKILL (OOM) stays inconclusive
        r = json.load(open(job["out"]))
        r["shard"] = job["shard"]
        return r

    with ThreadPoolExecutor(max_workers=min(16, nshards)) as ex:
        return list(ex.map(one, jobs))


def suite_under_monitor(prop, repo, work):
    """The repository's own tests as one more workload: pinned test command + monitors in record mode."""
    out = os.path.join(work, "suite.json")
    env = dict(os.environ, RV_PLUGIN_PROPS=prop, RV_PLUGIN_OUT=out, TUCAN_VERIF_REPO=repo, TUCAN_VERIF="1",
               PYTHONPATH=HERE + os.pathsep + os.path.join(HERE, ".deps"), PYTHONPYCACHEPREFIX=os.path.join(work, "pyc"))
    p = subprocess.run([PY, "-m", "pytest", "-q", "-p", "no:cacheprovider", "-p", "rv.pytest_plugin", "--timeout=900", "-x", "-q"], cwd=repo, env=env,
                       stdout=subprocess.PIPE, stderr=subprocess.STDOUT, text=True, timeout=3000)
    if not os.path.exists(out):
        return {"error": "suite-under-monitor run produced no result: " + p.stdout[-600:]}
    r = json.load(open(out))
    r["pytest_tail"] = p.stdout.strip().splitlines()[-1:] if p.stdout.strip() else []
    return r


def merge_suite(extra, r):
    obs = extra.setdefault("obs", {})
    if "error" in r:
        extra.setdefault("inconclusive", []).append(r["error"])
        return
    obs["suite_under_monitor"] = {"pytest": r["pytest_tail"], "monitor_evals": r["monitor_evals"], "rebound_references": r["rebound"], "recorded_violations": r["n_recorded"]}
    extra["evaluations"] = extra.get("evaluations", 0) + sum(r["monitor_evals"].values())
    me = extra.setdefault("monitor_evals", {})
    for k, v in r["monitor_evals"].items():
        me["suite:" + k] = v
    for rec in r["recorded"][:10]:
        extra.setdefault("violations", []).append({"property": rec["property"], "monitor": "suite:" + rec["monitor"], "witness": {**rec["witness"], "test": rec.get("test")},
                                                    "case": {"kind": "suite", "test": rec.get("test")}, "seed": 0, "tier": "thorough", "shard": -1})


def get_path(d, path):
    for p in path.split("/"):
        if not isinstance(d, dict) or p not in d:
            return 0
        d = d[p]
    if isinstance(d, dict):
        return sum(v for v in d.values() if isinstance(v, (int, float)))
    return d


def main():
    ap = argparse.ArgumentParser()
    ap.add_argument("prop")
    ap.add_argument("--tier", default=os.environ.get("VERIF_TIER", "quick"), choices=["quick", "thorough"])
    ap.add_argument("--replay")
    ap.add_argument("--shards", type=int)
    ap.add_argument("--no-evidence", action="store_true")
    a = ap.parse_args()
    prop = a.prop.upper()
    seed = int(os.environ.get("VERIF_SEED", "0"))
    repo = os.path.realpath(os.environ.get("TUCAN_VERIF_REPO", "/repo"))
    ensure_deps()
    from rv.core import merge_obs
    mod = importlib.import_module(f"rv.props.{prop.lower()}")
    spec = mod.SPEC
    tier = a.tier
    t0 = time.time()
    os.makedirs(os.path.join(HERE, ".work"), exist_ok=True)
    work = tempfile.mkdtemp(prefix=f"{prop}-", dir=os.path.join(HERE, ".work"))
    try:
        if a.replay:
            w = json.load(open(a.replay))
            res = run_shards(prop, w.get("tier", tier), w.get("seed", seed), 1, repo, None, 3600, work, replay=w)
        else:
            nshards = a.shards or spec.get("shards", {}).get(tier, 16)
            res = run_shards(prop, tier, seed, nshards, repo, spec.get("budget_s", {}).get(tier),
                             spec.get("watchdog_s", {}).get(tier, 3600), work)
        if hasattr(mod, "post_merge") and not a.replay:
            extra = mod.post_merge(res, tier, seed, repo, work)
        else:
            extra = None
        if spec.get("suite_under_monitor") and not a.replay and (tier == "thorough" or os.environ.get("RV_SUITE") == "1"):
            extra = extra or {}
            merge_suite(extra, suite_under_monitor(prop, repo, work))
    finally:
        shutil.rmtree(work, ignore_errors=True)

    dead = [r for r in res if not r.get("ok")]
    crashed = [r for r in dead if r.get("signal")] if spec.get("dead_worker_is_violation") else []
    dead = [r for r in dead if r not in crashed]
    evaluations = sum(r.get("evaluations", 0) for r in res if r.get("ok") or r.get("partial"))
    distinct = set()
    obs, mon, skipped, samples, violations, inconcl, hard = {}, {}, {}, [], [], [], []
    for r in res:
        if not r.get("ok") and not r.get("partial"):
            continue
        distinct.update(r["distinct"])
        merge_obs(obs, r["obs"])
        merge_obs(mon, r["monitor_evals"])
        merge_obs(skipped, r["skipped"])
        for s in r["samples"]:
            if len(samples) < 6:
                samples.append(s)
        violations.extend(r["violations"])
        inconcl.extend(r["inconclusive"])
        hard.extend(r.get("hard_inconclusive", []))
    if extra:
        merge_obs(obs, extra.get("obs", {}))
        violations.extend(extra.get("violations", []))
        evaluations += extra.get("evaluations", 0)
        distinct.update(extra.get("distinct", []))
        merge_obs(mon, extra.get("monitor_evals", {}))
        inconcl.extend(extra.get("inconclusive", []))

    for r in crashed:  # the interpreter itself died inside the monitored call (native crash; faulthandler dump in the trace)
        violations.append({"property": prop, "monitor": "completion:process-died", "seed": seed, "tier": tier, "shard": r.get("shard"),
                           "witness": {"what": "the process running the monitored call was killed by a signal", "error": r.get("error"), "faulthandler_tail": (r.get("trace") or "")[-1200:]},
                           "case": getattr(mod, "case_of_shard", lambda t, k: None)(tier, r.get("shard"))})
    known, fixed = load_known()
    new_v, known_hits = [], {}
    classify = getattr(mod, "classify", lambda w: None)
    for v in violations:
        key = classify(v)
        hit = next((k for k in known if k["property"] == v["property"] and k["mechanism"] == key), None) if key else None
        if hit:
            known_hits.setdefault(hit["mechanism"], [hit, 0])[1] += 1
        else:
            new_v.append(v)

    status = "held"
    problems = []
    if dead:
        status = "inconclusive"
        problems += [f"shard {d.get('shard')}: {d.get('error')}" for d in dead]
    if not a.replay:
        for name in spec.get("monitors_required", []):
            if not mon.get(name):
                status = "inconclusive"
                problems.append(f"deciding monitor '{name}' was never evaluated")
        import glob as _glob
        have_corpus = bool(_glob.glob(os.path.join(repo, "tests", "molfiles", "*", "*.mol")))
        for path in spec.get("required_obs", {}).get(tier, spec.get("required_obs", {}).get("quick", [])):
            if path.startswith("cov_corpus") and not have_corpus:
                continue  # the test data moved: the corpus workload is simply absent, not a coverage hole of the property
            if not get_path(obs, path):
                status = "inconclusive"
                problems.append(f"coverage class '{path}' was never observed")
        if evaluations == 0:
            status = "inconclusive"
            problems.append("no executions observed")
    if hard:
        status = "inconclusive"
        problems += [f"could not judge: {x}" for x in hard[:5]]
    if new_v:
        status = "violated"

    out_lines = []
    replay_paths = []
    if new_v:
        rdir = os.path.join(HERE, "evidence", "replays", prop)
        os.makedirs(rdir, exist_ok=True)
        for k, v in enumerate(new_v[:5]):
            p = os.path.join(rdir, f"{tier}-seed{seed}-{k}.json")
            json.dump(v, open(p, "w"), indent=1, default=str)
            replay_paths.append(p)
            out_lines.append(f"VIOLATION property={v['property']} replay={p}")
            out_lines.append(f"  monitor={v['monitor']} what={str(v['witness'].get('what') if isinstance(v['witness'], dict) else v['witness'])[:200]}")
    for mech, (hit, cnt) in known_hits.items():
        out_lines.append(f"KNOWN-FINDING: property={hit['property']} {hit['what']} (reproduced {cnt}x)")

    wall = time.time() - t0
    if not a.replay and not a.no_evidence:
        ev = {
            "property_id": prop, "tier": tier, "seed": seed, "level": spec.get("level", "exploration"),
            "coverage": {
                "evaluations": evaluations,
                "distinct_nontrivial": len(distinct),
                "rule": spec["rule"],
                "samples": samples,
                "exhaustive": bool(obs.get("exhaustive_subspace_complete")) and False,
                "monitor_evaluations": mon,
                "observed": obs,
                "skipped": skipped,
                "inconclusive_cases": len(inconcl),
                "inconclusive_detail": inconcl[:10],
                "shards": len(res),
                "verdict": status,
                "problems": problems,
                "known_findings_reproduced": {k: v[1] for k, v in known_hits.items()},
                "technique": spec.get("technique", ""),
                "repo": repo,
            },
            "assumptions": spec.get("assumptions", []),
            "wall_s": round(wall, 2),
            "violations": len(new_v),
        }
        if spec.get("exhaustive_note"):
            ev["coverage"]["exhaustive_subspace"] = spec["exhaustive_note"]
        os.makedirs(os.path.join(HERE, "evidence"), exist_ok=True)
        json.dump(ev, open(os.path.join(HERE, "evidence", f"{prop}.json"), "w"), indent=1, default=str)

    for l in out_lines:
        print(l)
    print(f"{prop} [{tier}] seed={seed}: {status.upper()} evaluations={evaluations} distinct_nontrivial={len(distinct)} "
          f"violations={len(new_v)} known={sum(v[1] for v in known_hits.values())} wall={wall:.1f}s")
    print("  monitors:", json.dumps(mon, sort_keys=True))
    brief = {k: v for k, v in obs.items() if not isinstance(v, (dict, list))}
    print("  observed:", json.dumps(brief, sort_keys=True)[:1500])
    for p in problems:
        print("  INCONCLUSIVE:", p)
    if dead:
        for d in dead[:3]:
            print("  trace:", (d.get("trace") or "")[-800:])
    if status == "violated":
        return 1
    if status == "inconclusive":
        return 2
    return 0


if __name__ == "__main__":
    sys.exit(main())
