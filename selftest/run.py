#!/venv/bin/python
"""Mutant self-test: for every selftest/mutants/*.diff (and seeded/*/patch.diff) apply it on a scratch worktree outside /repo and /verif,
check that the repository's stable baseline still passes there, run the checks and record which ones fire.
    selftest/run.py [--all-checks] [--only name-substring] [--seeded]
Writes selftest/results.json."""
import argparse, json, os, subprocess, sys, tempfile, time
HERE = os.path.dirname(os.path.abspath(__file__))
ROOT = os.path.dirname(HERE)
ALL = [f"C{i:02d}" for i in range(1, 17)]


def sh(cmd, env=None, timeout=3600):
    p = subprocess.run(cmd, stdout=subprocess.PIPE, stderr=subprocess.STDOUT, text=True, env=env, timeout=timeout, cwd=ROOT)
    return p.returncode, p.stdout


def main():
    ap = argparse.ArgumentParser()
    ap.add_argument("--all-checks", action="store_true")
    ap.add_argument("--only")
    ap.add_argument("--seeded", action="store_true")
    ap.add_argument("--benign", action="store_true")
    ap.add_argument("--tier", default="quick")
    ap.add_argument("--out")
    ap.add_argument("--skip-baseline", action="store_true")
    ap.add_argument("--checks", help="comma-separated list of checks to run on every item (instead of --all-checks / the expected ones)")
    ap.add_argument("--skip-slow", action="store_true", help="with --all-checks: run C14/C15 only where expected")
    a = ap.parse_args()
    items = []
    if a.seeded:
        sd = os.path.join(ROOT, "seeded")
        for d in sorted(os.listdir(sd)) if os.path.isdir(sd) else []:
            meta = json.load(open(os.path.join(sd, d, "meta.json")))
            items.append({"name": d, "expected": meta["expected_checks"], "patch": os.path.join(sd, d, "patch.diff"), "tier": meta.get("needs_tier")})
    elif a.benign:
        for m in json.load(open(os.path.join(HERE, "benign", "index.json"))):
            items.append({"name": m["name"], "expected": [], "patch": os.path.join(HERE, "benign", m["name"] + ".diff")})
    else:
        for m in json.load(open(os.path.join(HERE, "mutants", "index.json"))):
            items.append({"name": m["name"], "expected": m["expected"], "patch": os.path.join(HERE, "mutants", m["name"] + ".diff")})
    if a.only:
        items = [i for i in items if a.only in i["name"]]
    out_path = os.path.join(HERE, a.out) if a.out else os.path.join(HERE, "results_seeded.json" if a.seeded else "results_benign.json" if a.benign else "results.json")
    results = json.load(open(out_path)) if os.path.exists(out_path) and a.only else {}
    for it in items:
        wt = tempfile.mkdtemp(prefix="st-", dir="/tmp")
        os.rmdir(wt)
        subprocess.run(["git", "-C", "/repo", "worktree", "add", "-q", "--detach", wt, "HEAD"], check=True)
        rec = {"expected": it["expected"], "checks": {}}
        try:
            r = subprocess.run(["git", "-C", wt, "apply", it["patch"]], capture_output=True, text=True)
            if r.returncode:
                rec["error"] = "patch does not apply: " + r.stderr[:200]
                results[it["name"]] = rec
                continue
            env = dict(os.environ, TUCAN_VERIF_REPO=wt)
            if not a.skip_baseline:
                rc, out = sh(["/venv/bin/python", os.path.join(ROOT, "tools", "baseline_off.py"), "-n", "8"], env)
                rec["baseline_ok"] = rc == 0
                rec["baseline"] = out.strip().splitlines()[-2:] if out.strip() else []
            for c in (a.checks.split(",") if a.checks else ALL if a.all_checks else it["expected"]):
                if a.skip_slow and c in ("C14", "C15") and c not in it["expected"]:
                    continue
                t0 = time.time()
                tier = it.get("tier") if (it.get("tier") and c in it["expected"]) else a.tier
                rc, out = sh(["/venv/bin/python", os.path.join(ROOT, "check.py"), c, "--tier", tier, "--no-evidence"], env)
                first = next((l for l in out.splitlines() if l.startswith("  monitor=")), "")
                import re as _re
                mm = _re.search(r"violations=(\d+)", out)
                nviol = int(mm.group(1)) if mm else None
                rec["checks"][c] = {"rc": rc, "verdict": {0: "held", 1: "VIOLATION", 2: "inconclusive"}.get(rc, str(rc)), "first": first.strip()[:200], "wall_s": round(time.time() - t0, 1), "tier": tier, "violations": nviol, "seed": os.environ.get("VERIF_SEED", "0")}
            rec["caught_by"] = [c for c, v in rec["checks"].items() if v["rc"] == 1]
        finally:
            subprocess.run(["git", "-C", "/repo", "worktree", "remove", "--force", wt])
        results[it["name"]] = rec
        rec["alarms"] = [c for c, v in rec["checks"].items() if v["rc"] != 0]
        print(it["name"], "baseline_ok=%s" % rec.get("baseline_ok"), "alarms=%s" % rec["alarms"] if a.benign else "", "caught_by=%s" % rec.get("caught_by"), "missed=%s" % [c for c in it["expected"] if c not in rec.get("caught_by", [])], flush=True)
        json.dump(results, open(out_path, "w"), indent=1)
    # clean the replays written while running against mutants
    import shutil
    shutil.rmtree(os.path.join(ROOT, "evidence", "replays"), ignore_errors=True)


if __name__ == "__main__":
    main()
