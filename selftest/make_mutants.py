#!/venv/bin/python
"""Regenerates selftest/mutants/*.diff: one-line realistic breaks (from DESIGN.md 'Breaks it would catch').
Each entry: (name, properties expected to catch, file, old, new)."""
import os, subprocess, sys, tempfile, json
HERE = os.path.dirname(os.path.abspath(__file__))
M = [
 ("m01_neighbours_unsorted", ["C01", "C04", "C13"], "tucan/graph_utils.py",
  "    attr_neighbors = sorted(\n        [m.nodes[n][attribute] for n in m.neighbors(atom)], reverse=True\n    )\n",
  "    attr_neighbors = [m.nodes[n][attribute] for n in m.neighbors(atom)]\n"),
 ("m02_invariant_drops_radical", ["C01", "C04", "C13"], "tucan/graph_utils.py",
  "        InvariantCodeDefinition(RAD, 0),\n", ""),
 ("m03_invariant_drops_mass", ["C01", "C04", "C13"], "tucan/graph_utils.py",
  "        InvariantCodeDefinition(MASS, 0),\n", ""),
 ("m04_edge_endpoints_unsorted", ["C01", "C05"], "tucan/serialization.py",
  "sorted_edges = sorted([sorted(edge) for edge in m.edges()])", "sorted_edges = sorted([list(edge) for edge in m.edges()])"),
 ("m05_traversal_unsorted", ["C01"], "tucan/serialization.py",
  "neighbor_traversal_order.extend(sorted(neighbors_this_priority))", "neighbor_traversal_order.extend(neighbors_this_priority)"),
 ("m06_refinement_stops_early", ["C13"], "tucan/canonicalization.py",
  "    while True:\n        m_refined = partition_molecule_by_attribute(m, PARTITION)\n",
  "    for _ in range(64):\n        m_refined = partition_molecule_by_attribute(m, PARTITION)\n"),
 ("m08_serializer_drops_rad_when_mass", ["C02", "C03", "C05"], "tucan/serialization.py",
  "        node_attribute_string += f\"{','.join(available_attrs)})\"", "        node_attribute_string += f\"{','.join(available_attrs[:1])})\""),
 ("m10_parser_sorts_by_symbol", ["C03", "C10", "C11"], "tucan/parser/parser.py",
  "sorted_atoms = sorted(self._atoms, key=lambda a: a[ATOMIC_NUMBER])", "sorted_atoms = sorted(self._atoms, key=lambda a: a[ELEMENT_SYMBOL])"),
 ("m12_hill_hydrogen_first_without_carbon", ["C05", "C03"], "tucan/serialization.py",
  "        hydrogen_count = element_counts.pop(\"H\", None)\n        if hydrogen_count:\n            sum_formula_string += f\"H{hydrogen_count}\" if hydrogen_count > 1 else \"H\"\n",
  "    hydrogen_count = element_counts.pop(\"H\", None)\n    if hydrogen_count:\n        sum_formula_string += f\"H{hydrogen_count}\" if hydrogen_count > 1 else \"H\"\n"),
 ("m14_charge_in_invariant_code", ["C06"], "tucan/graph_utils.py",
  "        InvariantCodeDefinition(RAD, 0),\n", "        InvariantCodeDefinition(RAD, 0),\n        InvariantCodeDefinition(\"chg\", 0),\n"),
 ("m16_coordinate_tie_break", ["C06", "C01"], "tucan/graph_utils.py",
  "    sorted_attr, labels_sorted_by_attr = zip(\n        *sorted(attr_with_labels)\n    )  # (A, B, C), (0, 2, 1)\n",
  "    sorted_attr, labels_sorted_by_attr = zip(\n        *sorted(attr_with_labels, key=lambda t: (t[0], m.nodes[t[1]].get(\"x_coord\", 0), t[1]))\n    )  # (A, B, C), (0, 2, 1)\n"),
 ("m17_continuation_lstrip", ["C07", "C09"], "tucan/io/molfile_v3000_reader.py",
  "line_deque.appendleft(curr_line[0:-1] + next_line[7:])", "line_deque.appendleft(curr_line[0:-1] + next_line[7:].lstrip())"),
 ("m18_star_drops_last_endpoint", ["C07"], "tucan/io/molfile_v3000_reader.py",
  "for end_atom_index in numbers[1:]]", "for end_atom_index in numbers[1:-1] or numbers[1:]]"),
 ("m20_property_line_max_6_entries", ["C08"], "tucan/io/molfile_v2000_reader.py",
  "    for i in range(number_of_entries):\n", "    for i in range(min(number_of_entries, 6)):\n"),
 ("m21_supersession_chg_only", ["C08"], "tucan/io/molfile_v2000_reader.py",
  "        _clear_atom_attribute(CHG, atom_attrs)\n        _clear_atom_attribute(RAD, atom_attrs)\n", "        _clear_atom_attribute(CHG, atom_attrs)\n"),
 ("m23_wrap_at_72", ["C09"], "tucan/io/molfile_writer.py",
  "left, line = line[:71], line[71:]", "left, line = line[:72], line[72:]"),
 ("m24_charge_guard_off_by_one", ["C09"], "tucan/io/molfile_writer.py",
  "-15 <= chg <= 15", "-15 < chg < 15"),
 ("m25_radical_guard_off_by_one", ["C09"], "tucan/io/molfile_writer.py",
  "0 < rad <= 3", "0 < rad < 3"),
 ("m26_index_validation_gt", ["C10"], "tucan/parser/parser.py",
  "        if index >= len(self._atoms):", "        if index > len(self._atoms):"),
 ("m27_self_loop_check_dropped", ["C10"], "tucan/parser/parser.py",
  "        if index1 == index2:\n", "        if index1 == index2 and index1 > len(self._atoms):\n"),
 ("m29_partition_writes_to_argument", ["C12"], "tucan/canonicalization.py",
  "    m_partitioned = m.copy()\n", "    m_partitioned = m\n"),
 ("m30_explored_left_true", ["C12"], "tucan/serialization.py",
  "    assert len(final_labels) == len(m.nodes)\n\n    nx.set_node_attributes(m, False, EXPLORED)\n", "    assert len(final_labels) == len(m.nodes)\n\n"),
 ("m35_permute_drops_edge_data", ["C16"], "tucan/graph_utils.py",
  "    m_sorted_by_label.add_edges_from(m.edges(data=True))", "    m_sorted_by_label.add_edges_from(m.edges())"),
 ("m36_permute_not_sorted", ["C16"], "tucan/graph_utils.py",
  "    nodes_sorted_by_label = sorted(list(m.nodes(data=True)))", "    nodes_sorted_by_label = list(m.nodes(data=True))"),
 ("m37_permute_single_retry", ["C16"], "tucan/graph_utils.py",
  "        while m.edges == m_permu.edges:", "        if m.edges == m_permu.edges:"),
 ("m38_permute_copy_false", ["C16"], "tucan/graph_utils.py",
  "    m_relabeled = nx.relabel_nodes(m, dict(zip(permuted_labels, labels)), copy=True)", "    m_relabeled = nx.relabel_nodes(m, dict(zip(permuted_labels, labels)), copy=False)"),
 ("m39_dt_mass_overridden_by_zero_mass_kw", ["C07"], "tucan/io/molfile_v3000_reader.py",
  "            if not isotope_mass\n            else [isotope_mass]\n", "            if not isotope_mass or any(i.startswith(\"MASS=\") for i in line)\n            else [isotope_mass]\n"),
 ("m40_writer_bond_block_for_zero_bonds_EQUIVALENT", [], "tucan/io/molfile_writer.py",
  "    if graph.number_of_edges() == 0:\n        return\n", "    if graph.number_of_nodes() == 0:\n        return\n"),
 ("m41_recursive_refinement", ["C15"], "tucan/canonicalization.py", "REVERT", "0d4e104"),
 ("m42_igraph_convention", ["C01", "C03", "C04", "C11"], "tucan/canonicalization.py", "REVERT", "cdc06e6"),
 ("m43_exachg_substring", ["C07"], "tucan/io/molfile_v3000_reader.py", "REVERT", "f99cec8"),
 ("m44_explicit_zeros_stored", ["C05", "C07", "C08"], "tucan/io/molfile_v3000_reader.py", "REVERT", "8c661ee"),
 ("m45_iso_clears_dt", ["C08"], "tucan/io/molfile_v2000_reader.py", "REVERT", "51b82e3"),
 ("m46_header_spliced", ["C06"], "tucan/io/molfile_v3000_reader.py", "REVERT", "f8aeba5"),
 ("m47_two_line_records_scanned", ["C08"], "tucan/io/molfile_v2000_reader.py", "REVERT", "bcd19e8"),
 ("m48_huge_literal_valueerror", ["C10"], "tucan/parser/parser.py", "REVERT", "6fee700"),
]

def main():
    out = os.path.join(HERE, "mutants")
    os.makedirs(out, exist_ok=True)
    index = []
    for name, props, path, old, new in M:
        wt = tempfile.mkdtemp(prefix="mk-", dir="/tmp")
        os.rmdir(wt)
        subprocess.run(["git", "-C", "/repo", "worktree", "add", "-q", "--detach", wt, "HEAD"], check=True)
        try:
            if old == "REVERT":
                subprocess.run(["git", "-C", wt, "revert", "--no-commit", new], check=True, stdout=subprocess.DEVNULL)
                diff = subprocess.run(["git", "-C", wt, "diff", "HEAD"], capture_output=True, text=True).stdout
            else:
                f = os.path.join(wt, path)
                s = open(f).read()
                if s.count(old) != 1:
                    print("SKIP (pattern not unique/found):", name, s.count(old)); continue
                open(f, "w").write(s.replace(old, new))
                diff = subprocess.run(["git", "-C", wt, "diff"], capture_output=True, text=True).stdout
            open(os.path.join(out, name + ".diff"), "w").write(diff)
            index.append({"name": name, "expected": props})
        finally:
            subprocess.run(["git", "-C", "/repo", "worktree", "remove", "--force", wt])
    json.dump(index, open(os.path.join(out, "index.json"), "w"), indent=1)
    print(len(index), "mutants written")

if __name__ == "__main__":
    main()
