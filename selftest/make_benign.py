#!/venv/bin/python
"""Behaviour-preserving (with respect to C01..C16) refactorings: every check must stay silent on them ("never raise an alarm on code where
the property holds"). Writes selftest/benign/*.diff + index.json (expected = [] for all)."""
import json, os, subprocess, tempfile
HERE = os.path.dirname(os.path.abspath(__file__))
B = [
 ("b01_attr_key_order_rad_first", "tucan/serialization.py",
  "    MASS: \"mass\",\n    RAD: \"rad\",\n", "    RAD: \"rad\",\n    MASS: \"mass\",\n"),
 ("b02_writer_eight_decimals", "tucan/io/molfile_writer.py",
  "{x:.6f} {y:.6f} {z:.6f} 0", "{x:.8f} {y:.8f} {z:.8f} 0"),
 ("b03_edge_list_rewritten", "tucan/serialization.py",
  "sorted_edges = sorted([sorted(edge) for edge in m.edges()])", "sorted_edges = sorted((min(u, v), max(u, v)) for u, v in m.edges())"),
 ("b04_parser_messages_reworded", "tucan/parser/parser.py",
  "raise TucanParserException(f\"Atom with index {index + 1} does not exist.\")", "raise TucanParserException(f\"No atom #{index + 1} in the sum formula.\")"),
 ("b05_canonicalize_adds_attribute", "tucan/canonicalization.py",
  "    return nx.relabel_nodes(m_refined, canonical_labels, copy=True)\n",
  "    m_canonical = nx.relabel_nodes(m_refined, canonical_labels, copy=True)\n    nx.set_node_attributes(m_canonical, {v: k for k, v in canonical_labels.items()}, \"original_label\")\n    return m_canonical\n"),
 ("b06_refinement_yields_every_step", "tucan/canonicalization.py",
  [("        m = m_refined\n", "        yield m_refined\n        m = m_refined\n"),
   # the consumer keeps only the last step (keeping them all would be the quadratic-memory regression of seed C15f, which C15 reports)
   ("    m_refined = list(refine_partitions(m_partitioned_by_invariant_code))[-1]\n",
    "    for m_refined in refine_partitions(m_partitioned_by_invariant_code):\n        pass\n")], None),
 ("b07_writer_property_order", "tucan/io/molfile_writer.py",
  "0{charge}{radical}{atomic_mass}\"", "0{atomic_mass}{radical}{charge}\""),
 ("b08_permute_local_rng", "tucan/graph_utils.py", None, None),
 ("b09_serializer_removes_scratch_flag", "tucan/serialization.py",
  "    nx.set_node_attributes(m, False, EXPLORED)\n    return nx.relabel_nodes(m, final_labels, copy=True)\n",
  "    for _, attrs in m.nodes(data=True):\n        attrs.pop(EXPLORED, None)\n    return nx.relabel_nodes(m, final_labels, copy=True)\n"),
 ("b10_reader_bond_type_via_helper", "tucan/io/molfile_v2000_reader.py",
  "    bond_attrs = {BOND_TYPE: _to_int(line[6:9])}  # ttt\n", "    bond_type = _to_int(line[6:9])  # ttt\n    bond_attrs = {BOND_TYPE: bond_type}\n"),
]
B08_OLD = '''    random.seed(
        random_seed
    )  # subsequent calls of random.shuffle(x[, random]) will now use fixed sequence of values for `random` parameter

    m_permu = _permute_molecule(m)

    # Enforce permutation for graphs with at least 2 edges that aren't fully connected (i.e., complete).
    enforce_permutation = m.number_of_edges() > 1 and nx.density(m) != 1
    if enforce_permutation:
        while m.edges == m_permu.edges:
            m_permu = _permute_molecule(m)

    return m_permu


def _permute_molecule(m: nx.Graph) -> nx.Graph:
    labels = list(m.nodes)
    permuted_labels = list(labels)  # shallow copy
    random.shuffle(permuted_labels)
'''
B08_NEW = '''    rng = random.Random(random_seed)  # do not disturb the caller's global random state

    m_permu = _permute_molecule(m, rng)

    # Enforce permutation for graphs with at least 2 edges that aren't fully connected (i.e., complete).
    enforce_permutation = m.number_of_edges() > 1 and nx.density(m) != 1
    if enforce_permutation:
        while m.edges == m_permu.edges:
            m_permu = _permute_molecule(m, rng)

    return m_permu


def _permute_molecule(m: nx.Graph, rng: random.Random) -> nx.Graph:
    labels = list(m.nodes)
    permuted_labels = list(labels)  # shallow copy
    rng.shuffle(permuted_labels)
'''

def main():
    out = os.path.join(HERE, "benign")
    os.makedirs(out, exist_ok=True)
    index = []
    for name, path, old, new in B:
        if name.startswith("b08"):
            old, new = B08_OLD, B08_NEW
        wt = tempfile.mkdtemp(prefix="mk-", dir="/tmp"); os.rmdir(wt)
        subprocess.run(["git", "-C", "/repo", "worktree", "add", "-q", "--detach", wt, "HEAD"], check=True)
        try:
            f = os.path.join(wt, path)
            s = open(f).read()
            pairs = old if isinstance(old, list) else [(old, new)]
            if any(s.count(o) != 1 for o, _ in pairs):
                print("SKIP", name, [s.count(o) for o, _ in pairs]); continue
            for o, nw in pairs:
                s = s.replace(o, nw)
            open(f, "w").write(s)
            diff = subprocess.run(["git", "-C", wt, "diff"], capture_output=True, text=True).stdout
            open(os.path.join(out, name + ".diff"), "w").write(diff)
            index.append({"name": name, "expected": []})
        finally:
            subprocess.run(["git", "-C", "/repo", "worktree", "remove", "--force", wt])
    old = json.load(open(os.path.join(out, "index.json"))) if os.path.exists(os.path.join(out, "index.json")) else []
    index += [e for e in old if e["name"].startswith(("a_", "a2_"))]
    json.dump(index, open(os.path.join(out, "index.json"), "w"), indent=1)
    print(len(index), "benign refactorings written")

if __name__ == "__main__":
    main()
