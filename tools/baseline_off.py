#!/venv/bin/python
"""Run the repository's pinned test command with every verification guard OFF and compare
with the stable baseline (/root/.vp/BASELINE.json: every stable_pass test must still pass)."""
import json, os, subprocess, sys, tempfile, xml.etree.ElementTree as ET

def main():
    repo = os.environ.get("TUCAN_VERIF_REPO", "/repo")
    env = {k: v for k, v in os.environ.items() if not k.startswith("TUCAN_VERIF")}
    env.pop("PYTHONPATH", None)
    with tempfile.TemporaryDirectory() as d:
        xml = os.path.join(d, "junit.xml")
        cmd = ["/venv/bin/python", "-m", "pytest", "-q", "-p", "no:cacheprovider", "--timeout=900",
               "--continue-on-collection-errors", f"--junitxml={xml}"] + sys.argv[1:]
        p = subprocess.run(cmd, cwd=repo, env=env, stdout=subprocess.PIPE, stderr=subprocess.STDOUT, text=True)
        tail = p.stdout.strip().splitlines()[-1:] 
        passed = set()
        for tc in ET.parse(xml).getroot().iter("testcase"):
            ok = not any(ch.tag in ("failure", "error", "skipped") for ch in tc)
            if ok:
                passed.add(f"{tc.get('classname')}::{tc.get('name')}")
    try:
        stable = set(json.load(open("/root/.vp/BASELINE.json"))["stable_pass"])
    except FileNotFoundError:
        print("no BASELINE.json; pytest said:", tail); return 0 if p.returncode in (0, 1) else 1
    missing = sorted(stable - passed)
    print(f"pytest: {tail}")
    print(f"stable baseline: {len(stable)} tests; passing now: {len(stable) - len(missing)}; total passing: {len(passed)}")
    for m in missing[:20]:
        print("  NO LONGER PASSING:", m)
    return 1 if missing else 0

if __name__ == "__main__":
    sys.exit(main())
