#!/venv/bin/python
"""Regenerates /verif/MANIFEST.json from the SPEC of every property module present in rv/props."""
import importlib, json, os, sys
HERE = os.path.dirname(os.path.dirname(os.path.abspath(__file__)))
sys.path.insert(0, HERE); sys.path.insert(1, os.path.join(HERE, ".deps"))
props = [json.loads(l) for l in open(os.path.join(HERE, "properties.jsonl"))]
checks, na = [], []
for p in props:
    pid = p["id"]
    path = os.path.join(HERE, "rv", "props", pid.lower() + ".py")
    if not os.path.exists(path):
        na.append({"property_id": pid, "reason": "check not built yet in this round (planned: see DESIGN.md section 5); runtime monitoring applies"})
        continue
    spec = importlib.import_module(f"rv.props.{pid.lower()}").SPEC
    checks.append({
        "property_id": pid,
        "quick_cmd": f"/venv/bin/python check.py {pid} --tier quick",
        "thorough_cmd": f"/venv/bin/python check.py {pid} --tier thorough",
        "evidence_file": f"evidence/{pid}.json",
        "replay_cmd_template": f"/venv/bin/python check.py {pid} --replay {{path}}",
        "engine": "rv",
        "level_claimed": {"category": spec.get("level", "exploration"),
                          "text": spec.get("level_text", "Runtime monitoring: the property held on every monitored execution of the real code for the input classes / histories listed in the evidence file; nothing is claimed beyond the executions observed."),
                          "design_ref": f"DESIGN.md section 5, {pid}"},
        "level_note": spec.get("level_note", "; ".join(spec.get("assumptions", []))),
        "technique": spec.get("technique", "runtime monitoring"),
    })
m = {
    "version": 1,
    "setup_cmd": "/venv/bin/python -m pip install -q --no-index --find-links /opt/veriftools/wheels --target /verif/.deps icontract",
    "hooks": {"guard": "TUCAN_VERIF", "enable": "no source hooks: monitors are attached from the harness at import time (TUCAN_VERIF=1 is set by rv/worker.py and read only by the harness)",
              "baseline_off_cmd": "/venv/bin/python tools/baseline_off.py", "source_commits": [], "add_only": True},
    "engines": [{"name": "rv", "path": "check.py", "serves_properties": [c["property_id"] for c in checks],
                 "kind_free_text": "runtime monitoring: icontract contracts and differential wrappers on the real tucan functions, reference-model monitors, offline trace checkers, schedule/yield injection; workloads sharded over subprocesses"}],
    "checks": checks,
    "not_applicable": na,
    "notes": "All checks import tucan from /repo's working tree (override: TUCAN_VERIF_REPO). Exit 2 = inconclusive. Known findings: known_findings.jsonl.",
}
json.dump(m, open(os.path.join(HERE, "MANIFEST.json"), "w"), indent=1)
print(len(checks), "checks;", len(na), "not yet claimed")
