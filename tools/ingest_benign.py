#!/venv/bin/python
"""Copies a sub-agent's behaviour-preserving refactorings /tmp/ben/<module>/_ben/<N>/patch.diff into selftest/benign/a_<module>_<N>.diff
(after checking that each applies to a fresh worktree and that the stable baseline passes) and registers them in selftest/benign/index.json."""
import json, os, shutil, subprocess, sys, tempfile
mod = sys.argv[1]
root = f"{os.environ.get('BEN_ROOT', '/tmp/ben')}/{mod}/_ben"
out = "/verif/selftest/benign"
idx_path = os.path.join(out, "index.json")
idx = json.load(open(idx_path))
for n in sorted(os.listdir(root)):
    pf = os.path.join(root, n, "patch.diff")
    if not os.path.exists(pf):
        continue
    name = f"{os.environ.get('BEN_PREFIX', 'a')}_{mod}_{n}"
    wt = tempfile.mkdtemp(prefix="ib-", dir="/tmp"); os.rmdir(wt)
    subprocess.run(["git", "-C", "/repo", "worktree", "add", "-q", "--detach", wt, "HEAD"], check=True)
    try:
        r = subprocess.run(["git", "-C", wt, "apply", pf], capture_output=True, text=True)
        if r.returncode:
            print(name, "does not apply:", r.stderr[:200]); continue
        b = subprocess.run(["/venv/bin/python", "/verif/tools/baseline_off.py", "-n", "8"], env=dict(os.environ, TUCAN_VERIF_REPO=wt), capture_output=True, text=True)
        print(name, "baseline_ok:", b.returncode == 0, b.stdout.strip().splitlines()[-1:])
        if b.returncode == 0:
            shutil.copy(pf, os.path.join(out, name + ".diff"))
            notes = os.path.join(root, n, "notes.md")
            if os.path.exists(notes):
                shutil.copy(notes, os.path.join(out, name + ".notes.md"))
            if not any(e["name"] == name for e in idx):
                idx.append({"name": name, "expected": [], "author": "sub-agent"})
    finally:
        subprocess.run(["git", "-C", "/repo", "worktree", "remove", "--force", wt])
json.dump(idx, open(idx_path, "w"), indent=1)
