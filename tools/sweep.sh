#!/bin/bash
# usage: tools/sweep.sh <tier> <seeds...>  -- runs every check per seed with --no-evidence, prints one line per run
TIER=$1; shift
for seed in "$@"; do
  for p in ${PROPS:-C01 C02 C03 C04 C05 C06 C07 C08 C09 C10 C11 C12 C13 C14 C15 C16}; do
    VERIF_SEED=$seed /venv/bin/python "$(dirname "$0")/../check.py" $p --tier $TIER --no-evidence > /tmp/sweep_$p_$seed.log 2>&1
    rc=$?
    echo "seed=$seed $p rc=$rc $(grep -E "^C[0-9]+ \[" /tmp/sweep_$p_$seed.log | cut -c1-140)"
    if [ $rc -ne 0 ]; then grep -E "VIOLATION|monitor=|INCONCLUSIVE|KNOWN" /tmp/sweep_$p_$seed.log | head -5; fi
  done
done
