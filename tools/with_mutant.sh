#!/bin/bash
# usage: with_mutant.sh <patch-file|revert:<commit>> <command...>   -- runs command with TUCAN_VERIF_REPO pointing to a scratch worktree
set -u
PATCH="$1"; shift
WT=$(mktemp -d /tmp/wt-XXXXXX)
git -C /repo worktree add -q --detach "$WT" HEAD >/dev/null 2>&1 || { echo "worktree failed"; exit 3; }
if [[ "$PATCH" == revert:* ]]; then
  git -C "$WT" revert --no-commit "${PATCH#revert:}" >/dev/null 2>&1 || { echo "revert failed"; git -C /repo worktree remove --force "$WT"; exit 3; }
else
  git -C "$WT" apply "$PATCH" || { echo "apply failed"; git -C /repo worktree remove --force "$WT"; exit 3; }
fi
TUCAN_VERIF_REPO="$WT" "$@"
RC=$?
git -C /repo worktree remove --force "$WT"
exit $RC
