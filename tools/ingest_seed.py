#!/venv/bin/python
"""Ingest a sub-agent's seeded change after re-verifying it: tools/ingest_seed.py <Cxx> <a|b>
Confirms in a fresh scratch worktree: patch applies, full test-suite passes (stable baseline), demo exits 1 with the patch and 0 without.
Writes /verif/seeded/<Cxx><v>/{patch.diff,demo.py,notes.md,meta.json}."""
import json, os, shutil, subprocess, sys, tempfile
prop, v = sys.argv[1], sys.argv[2]
src = f"{os.environ.get("SEED_ROOT", "/tmp/seed")}/{prop}/_seed/{v}"
dst = f"/verif/seeded/{prop}{os.environ.get("SEED_SUFFIX", v)}"
wt = tempfile.mkdtemp(prefix="ing-", dir="/tmp"); os.rmdir(wt)
subprocess.run(["git", "-C", "/repo", "worktree", "add", "-q", "--detach", wt, "HEAD"], check=True)
meta = {"property": prop, "variant": v, "expected_checks": [prop]}
try:
    demo = os.path.join(wt, "_demo.py")
    shutil.copy(os.path.join(src, "demo.py"), demo)
    def run_demo():
        p = subprocess.run(["/venv/bin/python", "_demo.py"], cwd=wt, capture_output=True, text=True, timeout=900)
        return p.returncode, (p.stdout + p.stderr)[-600:]
    rc0, out0 = run_demo()
    r = subprocess.run(["git", "-C", wt, "apply", os.path.join(src, "patch.diff")], capture_output=True, text=True)
    if r.returncode:
        print("patch does not apply", r.stderr); sys.exit(1)
    rc1, out1 = run_demo()
    env = dict(os.environ, TUCAN_VERIF_REPO=wt)
    b = subprocess.run(["/venv/bin/python", "/verif/tools/baseline_off.py", "-n", "8"], env=env, capture_output=True, text=True)
    meta.update({"demo_exit_clean_tree": rc0, "demo_exit_with_patch": rc1, "demo_output_with_patch": out1, "baseline_with_patch": b.stdout.strip().splitlines()[-2:],
                 "baseline_ok": b.returncode == 0, "files_touched": [l[6:] for l in open(os.path.join(src, "patch.diff")) if l.startswith("+++ b/")]})
    ok = rc0 == 0 and rc1 == 1 and b.returncode == 0
    meta["confirmed"] = ok
    print(prop, v, "clean:", rc0, "patched:", rc1, "baseline_ok:", b.returncode == 0, meta["baseline_with_patch"][:1])
    if ok:
        os.makedirs(dst, exist_ok=True)
        for f in ("patch.diff", "demo.py", "notes.md"):
            shutil.copy(os.path.join(src, f), os.path.join(dst, f))
        meta["needs_to_manifest"] = open(os.path.join(src, "notes.md")).read()[:1500]
        meta["what_was_run"] = "fresh scratch worktree of /repo HEAD: demo.py (exit 0), git apply patch.diff, demo.py (exit 1), tools/baseline_off.py -n 8 (stable baseline passes)"
        json.dump(meta, open(os.path.join(dst, "meta.json"), "w"), indent=1)
finally:
    subprocess.run(["git", "-C", "/repo", "worktree", "remove", "--force", wt])
