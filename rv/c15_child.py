"""C15 child: runs the pipeline on one (family, size) under an address-space ceiling; prints JSON {ok, exception, stage, rss_mb}.
    python c15_child.py <repo> <family> <n> <limit_mb>"""
import json, os, resource, sys, traceback
HERE = os.path.dirname(os.path.dirname(os.path.abspath(__file__)))
sys.path.insert(0, HERE); sys.path.insert(1, os.path.join(HERE, ".deps"))
repo, fam, n, limit_mb = sys.argv[1], sys.argv[2], int(sys.argv[3]), int(sys.argv[4])
from rv import bridge
bridge.import_tucan(repo)
from rv.gen import mols as G
from rv.props.c15 import tucan_string_of
import tucan.canonicalization as c, tucan.serialization as s, tucan.parser.parser as pp
text = tucan_string_of(G.family(fam, n))
resource.setrlimit(resource.RLIMIT_AS, (limit_mb * 1024 * 1024, limit_mb * 1024 * 1024))
out = {"ok": True}
stage = "parse"
try:
    g = pp.graph_from_tucan(text)
    stage = "canonicalize"
    r = c.canonicalize_molecule(g)
    stage = "serialize"
    s.serialize_molecule(r)
except BaseException as e:
    out = {"ok": False, "exception": type(e).__name__, "stage": stage, "frames": [f"{f.name}@{os.path.basename(f.filename)}:{f.lineno}" for f in traceback.extract_tb(e.__traceback__)[-5:]]}
out["rss_mb"] = resource.getrusage(resource.RUSAGE_SELF).ru_maxrss // 1024
print(json.dumps(out))
