"""pytest plugin: run the repository's own test-suite as one more workload under the monitors (record mode: conditions log and
return True, so no test outcome changes).   python -m pytest -p rv.pytest_plugin   with env RV_PLUGIN_PROPS=C05,C12 RV_PLUGIN_OUT=<json>"""
import json
import os

from rv import monitors
from rv.core import Ctx


class _Plugin:
    def __init__(self):
        self.ctx = None
        self.current = None

    def pytest_sessionstart(self, session):
        props = set(os.environ.get("RV_PLUGIN_PROPS", "").split(","))
        self.ctx = Ctx("suite", "thorough", 0, 0, 1, os.environ.get("TUCAN_VERIF_REPO", "/repo"))
        monitors.install(self.ctx, props, mode="record", k_relabel=1, seed="suite")

    def pytest_runtest_setup(self, item):
        self.current = item.nodeid
        self._n = len(monitors.S.recorded)

    def pytest_runtest_teardown(self, item):
        for r in monitors.S.recorded[self._n:]:
            r["test"] = self.current

    def pytest_sessionfinish(self, session, exitstatus):
        out = {"monitor_evals": self.ctx.monitor_evals, "recorded": monitors.S.recorded[:50], "n_recorded": len(monitors.S.recorded),
               "rebound": getattr(monitors.S, "rebound", {}), "skipped": self.ctx.skipped, "exitstatus": int(exitstatus)}
        with open(os.environ["RV_PLUGIN_OUT"], "w") as f:
            json.dump(out, f, default=str)


def pytest_configure(config):
    config.pluginmanager.register(_Plugin(), "rv-monitors")
