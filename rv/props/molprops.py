"""Generic driver for the properties whose deciding monitor is a contract on canonicalize_molecule / serialize_molecule.
The driver only produces diverse executions; verdicts come from the contracts (rv.monitors) and, where stated,
from a trace-level comparison of the recorded results."""
import random

from .. import bridge, monitors
from ..core import MonitorViolation
from ..gen import mols as G
from ..oracles import ctab
from ..oracles.ctab import Mol
from . import common


def build_case_graph(case):
    import tucan.io.molfile_reader as mr
    import tucan.parser.parser as pp
    if case["kind"] == "mol":
        mol = Mol.from_json(case["mol"])
        return bridge.graph_direct(mol), mol
    if case["kind"] == "file":
        return common.tag_graph(mr.graph_from_file(case["path"])), None
    if case["kind"] == "text":
        return common.tag_graph(mr.graph_from_molfile_text(case["text"])), None
    if case["kind"] == "tucan":
        return common.tag_graph(pp.graph_from_tucan(case["string"])), None
    raise ValueError(case["kind"])


def cases(ctx, plan):
    """Yields JSON-able case descriptors."""
    k = 0
    if plan.get("small_n"):
        pals = [G.PALETTE3, G.PALETTE3B] if plan.get("two_palettes") else [G.PALETTE3]
        for mol in common.small_exhaustive(ctx, plan["small_n"], pals, extra=plan.get("extra", ())):
            if plan.get("small_sample") and len(mol.atoms) == plan["small_n"] and ctx.rng.random() > plan["small_sample"]:
                continue
            yield {"kind": "mol", "mol": mol.to_json(), "cls": "M1", "name": mol.name, "vseed": f"{ctx.seed}/{mol.name}"}
    for mol in common.random_classes(ctx, plan.get("random", {})):
        k += 1
        yield {"kind": "mol", "mol": mol.to_json(), "cls": mol.cls, "name": mol.name, "vseed": f"{ctx.seed}/{ctx.shard}/{k}"}
    if plan.get("corpus"):
        for j, f in enumerate(common.corpus_files(ctx.repo)):
            if ctx.mine(j):
                yield {"kind": "file", "path": f, "cls": "M6", "name": f.split("/")[-1], "vseed": f"{ctx.seed}/{j}"}
        for j, f in enumerate(common.corpus_files(ctx.repo, "v2000")):
            if ctx.mine(j):
                yield {"kind": "file", "path": f, "cls": "M6", "name": "v2000/" + f.split("/")[-1], "vseed": f"{ctx.seed}/v2/{j}"}
    for mol in common.cfi_graphs(ctx, plan.get("cfi_max_n", 400), plan.get("cfi", 0)):
        yield {"kind": "mol", "mol": mol.to_json(), "cls": "M6cfi", "name": mol.name, "vseed": f"{ctx.seed}/{mol.name}"}


FOREIGN_NODE_KEYS = ["name", "label", "id", "type", "color", "weight", "pos", "index", "original_label", "atom", "value"]


def add_foreign_attributes(ctx, g, rng, any_value=False):
    """Caller-side annotations under everyday names on atoms, bonds and the graph (atom names, colours, ...). any_value=True (C12 only, whose
    statement is about EVERY attribute being kept) also uses None / tuple values and the edge key 'weight', which graph libraries give a meaning."""
    keys = rng.sample(FOREIGN_NODE_KEYS, rng.randint(1, 3))
    values = (lambda v, d: [f"{d.get('element_symbol', 'X')}{v}", v + 100, (v, "t"), 1.5, None, 0, "", False]) if any_value else \
             (lambda v, d: [f"{d.get('element_symbol', 'X')}{v}", v + 100, 1.5, 0, "", False])
    for v, d in g.nodes(data=True):
        for k in keys:
            d[k] = rng.choice(values(v, d))
    for u, v, d in g.edges(data=True):
        if any_value:
            d["weight"] = rng.choice([1, 2.5, None, 0])
        d["name"] = f"b{min(u, v)}_{max(u, v)}"
    g.graph["name"] = "annotated molecule"
    ctx.count("cov_foreign_attributes_with_common_names")
    for k in keys:
        ctx.seen("foreign_node_keys", k)
    return g


def guarded(ctx, case, fn, *a):
    """Run fn under the monitors; a raised MonitorViolation is recorded with the case for replay."""
    try:
        return True, fn(*a)
    except MonitorViolation as v:
        ctx.violation(v.monitor, v.witness, case, v.prop)
        return False, None


def coverage(ctx, case, g0):
    common.classify_mol(ctx, g0)
    if case.get("cls") == "M3" and "+0" not in case.get("name", "+0"):
        ctx.count("cov_symmetric_partial_orbit")
    if case.get("cls") == "M6":
        ctx.count("cov_corpus")
    ctx.seen("classes", case.get("cls"))
