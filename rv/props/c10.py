"""C10 - the parser accepts exactly the grammar and returns the denoted graph.

Deciding monitor: differential wrapper on tucan.parser.parser.graph_from_tucan (hand-written: the raising paths matter):
accept/reject decision, exception type, and returned labelled graph are compared with the harness's reference reader."""
import random
import sys

from .. import bridge, monitors
from ..core import MonitorViolation
from ..gen import strings as GS
from ..oracles import tucan_grammar as tg
from ..oracles.elements import SYMBOLS_BY_Z
from . import common

SPEC = {
    "level": "exploration",
    "level_text": "Exploration by differential monitoring: every graph_from_tucan call is compared (accept/reject, exception type, labelled graph) with an independent reference reader; inputs are valid sentences over all 118 symbols and their single-token mutations and boundary classes (66k quick / 1.1M thorough). A probe with a 5 000-digit literal (formerly a known finding, since repaired) stays in every run.",
    "suite_under_monitor": True,
    "technique": "differential runtime monitor on graph_from_tucan against an independent reference reader (accept/reject, exception type, labelled graph)",
    "rule": ("strings: valid sentences over all 118 symbols (random formulas in Hill order, random tuples/attribute blocks), their single-token insertions, deletions, "
             "replacements, transpositions over the token alphabet {symbols, digits, 10, ( ) - : , = /, mass, rad, blank, newline, lower-case, non-ASCII dashes/digits}, "
             "digit edits (0, leading zero, +-1), and boundary classes (self-bond, duplicate attribute in one block / across blocks, index n+1, repeated tuple, trailing '/', "
             "empty formula, swapped formula order); thorough: per sentence every deletion and transposition position. distinct_nontrivial = distinct strings fed "
             "that are not plain generator output (i.e. mutated or boundary)"),
    "assumptions": ["numeric literals <= 18 digits, formula counts <= a few thousand atoms (generator bounds, stated in DESIGN.md)",
                    "reference reader written from tucan.ebnf + Hill's rule; its notion of the language is cross-checked against the EBNF element order at start-up"],
    "monitors_required": ["c10_differential", "ebnf_crosscheck"],
    "required_obs": {"quick": ["accepted", "reject_reason/lexer", "reject_reason/syntax", "reject_reason/index", "reject_reason/self-loop", "reject_reason/duplicate-attribute",
                               "cov_all_118_symbols_accepted", "cov_mutation/insert", "cov_mutation/delete", "cov_mutation/replace", "cov_mutation/transpose", "cov_boundary/boundary:count-one", "cov_boundary/boundary:n+1-first", "cov_boundary/boundary:dup-attr-same", "cov_boundary/boundary:carbon-late", "cov_sentence_with_100_or_more_atoms", "cov_big_sentence_boundary_probes", "cov_int_max_str_digits/0", "cov_int_max_str_digits/default"]},
    "watchdog_s": {"quick": 900, "thorough": 5400},
}
PLAN = {"quick": {"sentences": 6000, "mut_per": 10, "exhaustive_sentences": 0},
        "thorough": {"sentences": 60000, "mut_per": 14, "exhaustive_sentences": 1500}}


def ebnf_crosscheck(ctx):
    """The reference reader's element order must be the one spelled in the published EBNF (spec drift => inconclusive, not a code violation)."""
    import os, re
    txt = open(os.path.join(ctx.repo, "tucan", "parser", "tucan.ebnf")).read()
    rules = dict(re.findall(r"^(\w+)\s*::=\s*(.*)$", txt, flags=re.M))
    lit = {name: re.match(r'"([A-Za-z]+)"', body).group(1) for name, body in rules.items() if re.match(r'"[A-Z][a-z]?"\s+count\?', body)}
    from ..oracles.elements import hill_order
    for rule, has_c in (("with_carbon", True), ("without_carbon", False)):
        names = [t.rstrip("?") for t in rules[rule].split()]
        order = [lit[n] for n in names]
        want = hill_order(set(SYMBOLS_BY_Z) - (set() if has_c else {"C"}))
        if order != want:
            raise RuntimeError(f"INCONCLUSIVE spec drift: EBNF {rule} element order differs from Hill's rule")
    ctx.mon("ebnf_crosscheck")


def feed(ctx, s, case_kind):
    import tucan.parser.parser as pp
    ctx.evaluations += 1
    try:
        g = pp.graph_from_tucan(s)
        return "ok"
    except MonitorViolation as v:
        ctx.violation(v.monitor, v.witness, {"kind": "string", "string": s, "gen": case_kind}, v.prop)
        return "violation"
    except monitors.parser_exception_type():
        return "rejected"
    # any other exception escapes the wrapper only if the monitor is off


def run(ctx):
    plan = PLAN[ctx.tier]
    monitors.install(ctx, {"C10"}, seed=f"{ctx.seed}/{ctx.shard}")
    ebnf_crosscheck(ctx)
    # configurations: the interpreter's int<->str digit limit is a process setting a host application may change (0 = unlimited)
    if hasattr(sys, "set_int_max_str_digits") and ctx.shard % 4 in (1, 2):
        limit = 0 if ctx.shard % 4 == 1 else 640
        sys.set_int_max_str_digits(limit)
        ctx.seen("cov_int_max_str_digits", limit)
    else:
        ctx.seen("cov_int_max_str_digits", "default")
    rng = ctx.rng
    seen_syms = set()
    n_sent = common.share(ctx, plan["sentences"])
    for k in range(n_sent):
        if k < 40:
            # make sure every symbol occurs in an accepted formula: rotate through the table
            from ..oracles.elements import hill_order
            syms = hill_order(set(rng.sample(SYMBOLS_BY_Z, 12)) | {SYMBOLS_BY_Z[(k * 3 + j + 40 * ctx.shard) % 118] for j in range(3)})
            s = GS.emit([(x, rng.choice([1, 2, 3])) for x in syms], [(1, 2)], [])
        elif k % 25 == 7:
            s = GS.random_sentence(rng, 400)  # three-digit counts and indices (99/100/101 boundaries)
            try:
                g_ = tg.recognise(s)
                n_ = sum(c for _, c in g_.formula_items)
                if n_ >= 100:
                    ctx.count("cov_sentence_with_100_or_more_atoms")
                    # boundary classes at LARGE indices (two- and three-digit literals, values beyond small-integer ranges)
                    for i_ in sorted({n_, n_ - 1, 99, 100, 101, 255, 256, 257, 258, 300} & set(range(1, n_ + 1))):
                        feed(ctx, GS.emit(g_.formula_items, g_.tuples_raw + [(i_, i_)], g_.attr_blocks_raw), "big:selfbond")
                        feed(ctx, GS.emit(g_.formula_items, g_.tuples_raw, g_.attr_blocks_raw + [(i_, [("mass", 2)]), (i_, [("mass", 2)])]), "big:dup-attr")
                        feed(ctx, GS.emit(g_.formula_items, [(i_, max(1, i_ - 1))] + g_.tuples_raw, [(i_, [("rad", 300), ("mass", 257)])]), "big:valid-high-index")
                    feed(ctx, GS.emit(g_.formula_items, [(n_ + 1, 1)] + g_.tuples_raw, g_.attr_blocks_raw), "big:n+1")
                    ctx.count("cov_big_sentence_boundary_probes")
            except tg.Reject:
                pass
        else:
            s = GS.random_sentence(rng, 40)
        r = feed(ctx, s, "sentence")
        if r == "ok":
            try:
                for sym, _ in tg.recognise(s).formula_items:
                    seen_syms.add(sym)
            except tg.Reject:
                pass
        ctx.sample({"string": s[:120], "library": r}, cap=3)
        for j in range(plan["mut_per"]):
            m, kind = GS.mutate(s, rng)
            if rng.random() < 0.15:
                m, kind2 = GS.mutate(m, rng)
            if kind == "noop":
                continue
            ctx.seen("cov_mutation", kind.split(":")[0])
            if kind.startswith("boundary"):
                ctx.seen("cov_boundary", kind)
            r = feed(ctx, m, kind)
            ctx.nontrivial(m)
            if j == 0:
                ctx.sample({"string": m[:120], "mutation": kind, "library": r}, cap=6)
        if k < plan["exhaustive_sentences"] // max(1, ctx.nshards) + 1 and plan["exhaustive_sentences"]:
            toks = GS.tokenize_loose(s)
            for i in range(len(toks)):
                feed(ctx, "".join(toks[:i] + toks[i + 1:]), "exh-delete")
                if i + 1 < len(toks):
                    t2 = list(toks); t2[i], t2[i + 1] = t2[i + 1], t2[i]
                    feed(ctx, "".join(t2), "exh-transpose")
            if k < plan["exhaustive_sentences"] // (5 * max(1, ctx.nshards)) + 1:
                reps = ["C", "H", "Cl", "Og", "0", "1", "2", "10", "(", ")", "-", ":", ",", "=", "/", "mass", "rad", " "]
                for i in range(len(toks) + 1):
                    for r in reps:
                        if i < len(toks):
                            feed(ctx, "".join(toks[:i] + [r] + toks[i + 1:]), "exh-replace")
                        feed(ctx, "".join(toks[:i] + [r] + toks[i:]), "exh-insert")
                ctx.count("cov_exhaustive_replace_insert_sentences")
            ctx.count("cov_exhaustive_position_sentences")
    ctx.obs["symbols_in_accepted_formulas"] = sorted(seen_syms)
    # known finding F2 probe (shard 0 only): literal longer than the interpreter's int<->str digit limit
    if ctx.shard == 0:
        limit = sys.get_int_max_str_digits() if hasattr(sys, "get_int_max_str_digits") else 0
        if limit:
            feed(ctx, "CH4/(1-" + "9" * (limit + 700) + ")", "probe:huge-literal")


def post_merge(res, tier, seed, repo, work):
    syms = set()
    for r in res:
        if r.get("ok"):
            syms.update(r["obs"].get("symbols_in_accepted_formulas", []))
    return {"obs": {"cov_all_118_symbols_accepted": 1 if len(syms) == 118 else 0, "n_symbols_in_accepted_formulas": len(syms)}}


def classify(v):
    w = v.get("witness", {})
    if isinstance(w, dict) and w.get("what") == "rejected with an unrelated exception type" and "ValueError" in w.get("exception", "") \
            and "integer string conversion" in w.get("exception", ""):
        s = (v.get("case") or {}).get("string", "")
        import re
        if max((len(x) for x in re.findall(r"[0-9]+", s)), default=0) > 4000:
            return "numeric-literal-longer-than-int-max-str-digits"
    return None


def replay(ctx, w):
    monitors.install(ctx, {"C10"}, seed="replay")
    feed(ctx, w["case"]["string"], "replay")
