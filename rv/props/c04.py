"""C04 - canonical atom numbering: same molecule gives the same labelled graph.

Deciding monitor: metamorphic contract on canonicalize_molecule (shadow relabellings through the original function,
labelled-graph equality). Plus a trace checker over canonicalize results of graph- and V3000-text-route variants."""
import json
import os
import random

from .. import bridge, monitors
from ..core import h
from ..oracles import iso
from ..gen import mols as G
from ..oracles.ctab import Mol
from . import common, molprops
from .c01 import text_variant

SPEC = {
    "level": "exploration",
    "level_text": 'Exploration: metamorphic post-condition on canonicalize_molecule comparing the labelled result (node -> element, mass, radical, class; edge set) with shadow results on harness relabellings, plus trace variants through V3000 text. Same reach argument as C01; it observes the canonical graph itself, which no string comparison can.',
    "suite_under_monitor": True,
    "technique": "metamorphic runtime contract (icontract ensure) on canonicalize_molecule: shadow relabelling, labelled-graph equality",
    "rule": ("cases as in C01 (M1 exhaustive n<=4/5 x 3 colours, M2, M3 partially labelled orbits, M4, M5, M6 corpus, CFI in thorough); every "
             "canonicalize_molecule call is followed by k shadow calls on harness-relabelled copies and the node->(element,mass,radical,class) "
             "maps and edge sets are compared; trace variants additionally enter through V3000 text. distinct_nontrivial = distinct molecules "
             "(exact canonical form n<=7, else refinement fingerprint) with >=3 atoms and >=1 bond"),
    "assumptions": ["relabelling applied by the harness: same molecule by construction", "molecules <= 120 atoms get shadow calls; larger ones are counted as skipped"],
    "monitors_required": ["c04_shadow_compare", "c04_trace_compare", "c04_exhaustive_class_compare"],
    "required_obs": {"quick": ["cov_debug_logging_enabled", "shadow_inputs_with_noncontiguous_labels", "cov_foreign_attributes_with_common_names", "shadow_inputs_with_stale_partition", "shadow_inputs_relabelled_canonical_graph", "cov_multi_component", "cov_isotope_and_radical_on_one_atom", "cov_symmetric_partial_orbit", "cov_text_route_variant", "cov_corpus"]},
    "watchdog_s": {"quick": 900, "thorough": 3600},
}
PLAN = {
    "quick": {"small_n": 4, "random": {"M2": 1400, "M3": 1000, "M4": 300, "M5": 300, "M7s": 200, "M10hiso": 600, "M12rings": 500}, "variants": 2, "k": 2, "corpus": True},
    "thorough": {"small_n": 5, "small_sample": 0.12, "extra": [(6, [("C", 0, 0)])], "random": {"M2": 12000, "M3": 9000, "M4": 3000, "M5": 3000, "M7s": 1500, "M10hiso": 6000, "M12rings": 5000}, "variants": 4, "k": 4,
                 "corpus": True, "cfi": 6},
}


def labelled(r):
    return (tuple(sorted(monitors._node_map(r).items(), key=lambda kv: kv[0])), frozenset(monitors._edge_set(r)))


def run_case(ctx, case):
    return common.case_guard(ctx, case, _run_case)


def _run_case(ctx, case):
    import tucan.canonicalization as c
    import tucan.io.molfile_reader as mr
    plan = PLAN[ctx.tier]
    rng = random.Random(case["vseed"])
    g0, mol = molprops.build_case_graph(case)
    if rng.random() < 0.25:
        molprops.add_foreign_attributes(ctx, g0, rng)
    ctx.evaluations += 1
    ok, r0 = molprops.guarded(ctx, case, c.canonicalize_molecule, g0)
    if not ok:
        return
    results = [("original", labelled(r0))]
    monitors.S.depth += 1
    try:
        for v in range(plan["variants"]):
            g1, _ = bridge.harness_relabel(g0, rng)
            results.append((f"graph-relabel-{v}", labelled(c.canonicalize_molecule(g1))))
            ctx.evaluations += 1
        if mol is not None:
            m2, _ = G.relabel(mol, rng)
            g2 = mr.graph_from_molfile_text(text_variant(m2, rng))
            results.append(("v3000-text", labelled(c.canonicalize_molecule(g2))))
            ctx.count("cov_text_route_variant")
            ctx.evaluations += 1
    finally:
        monitors.S.depth -= 1
    ctx.mon("c04_trace_compare", len(results) - 1)
    if len({r for _, r in results}) > 1:
        ctx.violation("trace:one-labelled-graph-per-molecule", {"what": "variants of one molecule canonicalize to different labelled graphs",
                                                                 "variants": [k for k, _ in results], "first": repr(results[0][1])[:400],
                                                                 "other": repr(next(r for _, r in results if r != results[0][1]))[:400]}, case)
    if g0.number_of_nodes() >= 3 and g0.number_of_edges() >= 1:
        ctx.nontrivial(common.graph_key(g0))
    molprops.coverage(ctx, case, g0)
    if case.get("cls") == "M1" and getattr(ctx, "events", None) is not None:
        c_, e_ = bridge.colors_edges(g0)
        canon_repr = (results[0][1][0], sorted(sorted(e) for e in results[0][1][1]))  # order-independent spelling of the labelled graph
        ctx.events.write(json.dumps({"k": h(iso.canon_small(c_, e_)), "g": h(canon_repr), "name": case.get("name")}) + "\n")
    ctx.sample({"class": case.get("cls"), "name": case.get("name"), "atoms": g0.number_of_nodes(),
                "canonical_nodes": [[v, list(map(str, t))] for v, t in results[0][1][0]][:6]})


def run(ctx):
    plan = PLAN[ctx.tier]
    monitors.install(ctx, {"C04"}, k_relabel=plan["k"], seed=f"{ctx.seed}/{ctx.shard}")
    ctx.events = open(ctx.events_path, "w")
    for case in molprops.cases(ctx, plan):
        run_case(ctx, case)


def post_merge(res, tier, seed, repo, work):
    """Exhaustive small sub-space: all labelled versions of one isomorphism class (independent canonical form) must canonicalize to ONE labelled graph."""
    by_class, n = {}, 0
    for f in sorted(os.listdir(work)):
        if f.endswith(".events"):
            for line in open(os.path.join(work, f)):
                e = json.loads(line)
                n += 1
                by_class.setdefault(e["k"], {}).setdefault(e["g"], e["name"])
    violations = []
    for k, graphs in by_class.items():
        if len(graphs) > 1:
            violations.append({"property": "C04", "monitor": "trace:one-labelled-graph-per-isomorphism-class(exhaustive)", "seed": seed, "tier": tier, "shard": -1,
                               "witness": {"what": "labelled versions of one small molecule canonicalize to different labelled graphs", "examples": list(graphs.values())[:4]}, "case": None})
    return {"obs": {"exhaustive_events": n, "exhaustive_isomorphism_classes": len(by_class)}, "violations": violations[:10],
            "monitor_evals": {"c04_exhaustive_class_compare": len(by_class)}}


def replay(ctx, w):
    if w.get("case") is None:
        return
    monitors.install(ctx, {"C04"}, k_relabel=8, seed="replay")
    run_case(ctx, w["case"])
