"""C12 - canonicalization only renames atoms; nothing is lost, added or mutated; calls are repeatable.

Deciding monitors: snapshot/ensure contracts on canonicalize_molecule and serialize_molecule with unique atom/bond tags.
The driver adds random call histories on the same objects (canonicalize / serialize / serialize again / canonicalize again)."""
import random

from .. import bridge, monitors
from ..bridge import fingerprint
from . import common, molprops

SPEC = {
    "level": "exploration",
    "level_text": "Exploration: snapshot/ensure contracts with unique atom and bond tags on canonicalize_molecule and serialize_molecule (argument fingerprint unchanged, bijective renaming onto 0..n-1, every input attribute and bond attribute kept, repeatable), plus random call histories and 'another drawing of the same molecule' in the same process.",
    "suite_under_monitor": True,
    "technique": "runtime contracts (icontract snapshot+ensure) on canonicalize_molecule and serialize_molecule with unique atom/bond tags; repeated-call histories",
    "rule": ("cases: M1 n<=4, M2 (charges, coordinates, bond types), M3, M4, M5, M7-small, corpus V3000+V2000; every atom carries a unique tag and a foreign "
             "attribute, every bond a unique tag; each case is followed by a random history of 3-6 further calls on the same objects. distinct_nontrivial = "
             "distinct molecules with >=2 atoms, >=1 bond and at least one non-identity attribute (charge, coordinate, bond type != 1)"),
    "assumptions": ["the scratch flag 'explored' may appear on the serializer's argument with value False (the property allows exactly that)"],
    "monitors_required": ["c12_canon", "c12_canon_repeat", "c12_serialize", "c12_history_compare"],
    "required_obs": {"quick": ["cov_debug_logging_enabled", "cov_in_place_edit_between_calls", "cov_noncontiguous_input_labels", "cov_foreign_attributes_with_common_names", "cov_other_drawing_same_identity", "cov_charged", "cov_bond_types", "cov_multi_component", "cov_corpus", "cov_foreign_attribute"]},
    "watchdog_s": {"quick": 900, "thorough": 3600},
}
PLAN = {
    "quick": {"small_n": 4, "random": {"M2": 2500, "M3": 800, "M4": 400, "M5": 400, "M7s": 300, "M10hiso": 200}, "k": 1, "corpus": True},
    "thorough": {"small_n": 5, "small_sample": 0.1, "random": {"M2": 25000, "M3": 8000, "M4": 4000, "M5": 4000, "M7s": 3000, "M10hiso": 2000}, "k": 1, "corpus": True, "cfi": 6},
}


def run_case(ctx, case):
    return common.case_guard(ctx, case, _run_case)


def _run_case(ctx, case):
    import tucan.canonicalization as c
    import tucan.serialization as s
    rng = random.Random(case["vseed"])
    g0, mol = molprops.build_case_graph(case)
    for v, d in g0.nodes(data=True):
        d["_rv_foreign"] = ("note", v)  # a foreign attribute must be carried along too
    if rng.random() < 0.2:
        # atoms numbered sparsely / negatively (e.g. a fragment cut out of a larger graph): the result must still be a renaming onto 0..n-1
        import networkx as nx
        off = rng.choice([1, 100, -50, 10 ** 6])
        g0 = nx.relabel_nodes(g0, {v: off + 3 * v for v in g0.nodes}, copy=True)
        ctx.count("cov_noncontiguous_input_labels")
    g0.graph["_rv_graph_attr"] = "kept?"
    if rng.random() < 0.25:
        molprops.add_foreign_attributes(ctx, g0, rng, any_value=True)
    ctx.count("cov_foreign_attribute")
    ctx.evaluations += 1
    ok, r = molprops.guarded(ctx, case, c.canonicalize_molecule, g0)
    if not ok:
        return
    ok, s0 = molprops.guarded(ctx, case, s.serialize_molecule, r)
    if not ok:
        return
    # "another drawing" earlier/later in the same process: same atoms in the same order with the same identity data and bonds, but other
    # coordinates, charges, bond types and foreign attributes - its canonical graph must carry ITS attributes (contract on that call)
    import networkx as nx
    g_other = nx.Graph()
    g_other.graph.update(g0.graph)
    for v, d in g0.nodes(data=True):
        d2 = dict(d)
        d2["x_coord"], d2["y_coord"], d2["z_coord"] = d.get("x_coord", 0.0) + 5.0, -d.get("y_coord", 0.0), 1.0
        d2["_rv_foreign"] = ("other-drawing", v)
        if rng.random() < 0.3:
            d2["chg"] = rng.choice([-1, 1, 2])
        elif "chg" in d2 and rng.random() < 0.5:
            del d2["chg"]
        g_other.add_node(v, **d2)
    for u, v, d in g0.edges(data=True):
        g_other.add_edge(u, v, **{**d, "bond_type": rng.choice([1, 2, 3, 4])})
    ctx.evaluations += 1
    ok, r_other = molprops.guarded(ctx, {**case, "variant": "other-drawing"}, c.canonicalize_molecule, g_other)
    if not ok:
        return
    ok, s_other = molprops.guarded(ctx, {**case, "variant": "other-drawing"}, s.serialize_molecule, r_other)
    if not ok:
        return
    ctx.count("cov_other_drawing_same_identity")
    # random history on the same objects; every call is also checked by the contracts
    fp_r, results = fingerprint(r, True), []
    for step in range(rng.randint(3, 6)):
        op = rng.choice(["canon", "ser", "ser", "canon_of_canon"])
        ctx.evaluations += 1
        if op == "canon":
            ok, r2 = molprops.guarded(ctx, case, c.canonicalize_molecule, g0)
            if not ok:
                return
            if fingerprint(r2, True) != fp_r:
                ctx.violation("history:repeatable", {"what": "canonicalize on the same object later in the history gave a different graph", "step": step}, case)
                return
        elif op == "ser":
            ok, s2 = molprops.guarded(ctx, case, s.serialize_molecule, r)
            if not ok:
                return
            if s2 != s0:
                ctx.violation("history:repeatable", {"what": "serialize on the same object later in the history gave a different string", "s1": s0[:200], "s2": s2[:200]}, case)
                return
        else:
            # canonicalizing an already canonical graph (now carrying the scratch flag) must still only rename
            ok, r3 = molprops.guarded(ctx, case, c.canonicalize_molecule, r)
            if not ok:
                return
        ctx.mon("c12_history_compare")
    # the SAME object edited in place between two calls (a bond removed, an isotope label changed): the second result must be a renaming
    # of the object as it is NOW (the contract on that call compares with the current argument)
    if g0.number_of_edges() >= 1 and rng.random() < 0.5:
        u, v = rng.choice(sorted(g0.edges()))
        g0.remove_edge(u, v)
        w = rng.choice(sorted(g0.nodes))
        g0.nodes[w]["mass"] = (g0.nodes[w].get("mass") or 0) + 1
        ic = g0.nodes[w].get("invariant_code")
        if isinstance(ic, tuple) and len(ic) == 3:
            g0.nodes[w]["invariant_code"] = (ic[0], g0.nodes[w]["mass"], ic[2])
        ctx.evaluations += 1
        ok, r_edit = molprops.guarded(ctx, {**case, "variant": "edited-in-place"}, c.canonicalize_molecule, g0)
        if not ok:
            return
        ok, s_edit = molprops.guarded(ctx, {**case, "variant": "edited-in-place"}, s.serialize_molecule, r_edit)
        if not ok:
            return
        ctx.count("cov_in_place_edit_between_calls")
    if any(d.get("chg") for _, d in g0.nodes(data=True)):
        ctx.count("cov_charged")
    if any(d.get("bond_type", 1) != 1 for _, _, d in g0.edges(data=True)):
        ctx.count("cov_bond_types")
    if g0.number_of_nodes() >= 2 and g0.number_of_edges() >= 1:
        ctx.nontrivial(common.graph_key(g0))
    molprops.coverage(ctx, case, g0)
    ctx.sample({"class": case.get("cls"), "name": case.get("name"), "atoms": g0.number_of_nodes(), "string": s0[:100]})


def run(ctx):
    plan = PLAN[ctx.tier]
    monitors.install(ctx, {"C12"}, k_relabel=plan["k"], seed=f"{ctx.seed}/{ctx.shard}")
    for case in molprops.cases(ctx, plan):
        run_case(ctx, case)


def replay(ctx, w):
    monitors.install(ctx, {"C12"}, k_relabel=2, seed="replay")
    run_case(ctx, w["case"])
