"""C08 - the V2000 reader agrees with V3000 on the same molecule.

Reference-model monitor on graph_from_molfile_text, pairing events by molecule id: one abstract molecule is rendered by two independent
renderers (V2000 fixed columns, V3000 free format); both graphs must equal the abstract molecule, equal each other (nodes with data in
order, edges with data - the comparison the repository's own V2000/V3000 test uses) and give the same TUCAN string."""
import random

from .. import bridge
from ..gen import mols as G
from ..oracles import ctab
from ..oracles.ctab import Mol, V2Style, V3Style
from . import common

SPEC = {
    "level": "exploration",
    "level_text": 'Exploration with a reference model: independent V2000 and V3000 renderers of one abstract molecule; both graphs must equal the model and each other (node data in order, edge data) and yield one string. Covers code vs property-line encodings, supersession, 1..8 entries per line over several lines, D/T with foreign M  ISO, touching fixed-width fields, 3-digit indices, and call histories over one drawing in several label states.',
    "technique": "reference-model runtime monitor: independent V2000 and V3000 renderers of one abstract molecule, graph equality against the model and between the two readers",
    "rule": ("cases: abstract molecules <=999 atoms (most <=30, some 100-300 for 3-digit indices) with F10.4-representable coordinates x V2000 renderings: charge/radical as atom-block "
             "codes, as M  CHG/M  RAD lines, stale codes superseded by property lines, CHG-only / RAD-only lines; entries packed 1..8 per line over several lines; isotopes in M  ISO; "
             "D/T symbols together with M  ISO lines naming other atoms; unrelated property lines (M  STY/SAL/SMT/SBL/ALS/RGP/LIN/SUB/UNS/RBC, A, V, G) and atom lists in between; "
             "explicit zero entries; CRLF. distinct_nontrivial = distinct V2000 texts containing at least one property line or charge code"),
    "assumptions": ["mass-difference field (dd) kept 0: the property names M  ISO and D/T as the isotope encodings", "coordinates representable in F10.4"],
    "monitors_required": ["c08_v2000_vs_model", "c08_v2000_vs_v3000", "c08_string_compare"],
    "required_obs": {"quick": ["stale_codes_with_zero_only_property_lines", "entries_per_line/8", "entries_per_line/3", "encoding/codes", "encoding/lines", "encoding/stale", "dt_with_foreign_iso", "unrelated", "v2000_chiral_flag_set", "two_line_records_with_property_like_text", "atom_list_lines",
                               "cov_three_digit_indices", "cov_990_to_999_atoms", "cov_adjacent_fixed_width_fields", "cov_isotopologue_history", "cov_corpus_as_v2000", "cov_identical_atom_lines_in_one_file", "cov_rad_only_lines_with_codes", "cov_chg_only_lines_with_radical_codes"]},
    "watchdog_s": {"quick": 900, "thorough": 5400},
}
PLAN = {"quick": {"cases": 5000, "big": 40, "huge": 4}, "thorough": {"cases": 60000, "big": 400, "huge": 48}}


def pipeline(g):
    import tucan.canonicalization as c
    import tucan.serialization as s
    return s.serialize_molecule(c.canonicalize_molecule(g))


def gen_mol(rng, big=False, huge=False):
    if huge:
        mol = G.random_organic(rng, 990, 999)  # the format's limit: counts line fields filled to three digits
        if len(mol.bonds) > 999:
            mol.bonds = mol.bonds[:999]
    elif big:
        mol = G.random_organic(rng, 100, 300)
    else:
        r = rng.random()
        mol = G.random_organic(rng, 1, 30) if r < 0.6 else G.all_elements(rng, 25) if r < 0.8 else G.multi_component(rng)
    for a in mol.atoms:
        a.chg = 0 if rng.random() < 0.6 else rng.choice([-3, -2, -1, 1, 2, 3, 3, -1, 1, 7, -15, 15])
        a.rad = 0 if rng.random() < 0.7 else rng.choice([2, 2, 2, 1, 3])
        if a.sym == "H" and rng.random() < 0.6:
            a.mass = rng.choice([2, 3, 1])
        if a.mass > 999:
            a.mass = 999
    mode = rng.random()
    if mode < 0.2:      # only charges in the code range, no radicals -> pure code rendering possible
        for a in mol.atoms:
            a.rad = 0
            a.chg = a.chg if a.chg in (-3, -2, -1, 0, 1, 2, 3) else 0
    elif mode < 0.35:   # doublet radicals only
        for a in mol.atoms:
            a.chg = 0
            a.rad = 2 if a.rad else 0
    elif mode < 0.5:    # many labelled atoms so that property lines fill up to 8 entries
        for a in mol.atoms:
            if rng.random() < 0.7:
                a.mass = rng.choice([2, 13, 14, 15, 18]) if a.sym != "H" else rng.choice([2, 3])
            if rng.random() < 0.7:
                a.chg = rng.choice([-2, -1, 1, 2, 5])
    mol.bonds = [(i, j, rng.choice([1, 1, 2, 3, 4, 8])) for i, j, _ in mol.bonds]
    if rng.random() < 0.25:
        # coordinates that fill the whole F10.4 field, so that neighbouring fixed-width fields touch (no blank between them)
        for a in mol.atoms:
            a.x, a.y, a.z = (round(rng.choice([-1, 1]) * rng.uniform(1000, 9999.9999), 4) if rng.random() < 0.7 else round(rng.uniform(-999.9999, -100), 4) for _ in range(3))
            a.x = max(a.x, -9999.9999)
        mol.name += "+widecoords"
    return mol


def run_case(ctx, case):
    return common.case_guard(ctx, case, _run_case)


def _run_case(ctx, case):
    import tucan.io.molfile_reader as mr
    mol = Mol.from_json(case["mol"])
    rng = random.Random(case["vseed"])
    if not ctab.v2000_representable(mol):
        ctx.skip("not representable in V2000")
        return
    enc = case.get("encoding") or rng.choice(["codes", "lines", "lines", "stale", "agree", "chg_only", "rad_only"])
    v2 = V2Style(encoding="lines", per_line=rng.choice([0, 0, 1, 2, 3, 4, 5, 6, 7, 8, 8, 8]), dt_symbols=rng.random() < 0.7,
                 unrelated=rng.choice([0, 0, 0.3, 0.6]), atom_lists=rng.choice([0, 0, 0, 1, 3]), eol=rng.choice(["\n", "\n", "\r\n", "mixed"]),
                 explicit_zero=rng.choice([0, 0, 0.3]), shuffle_entries=rng.random() < 0.5, interleave=rng.random() < 0.5,
                 after_end=rng.choice(["", "", "$$$$"]), final_eol=rng.random() < 0.5, stereo_fields=rng.random() < 0.3,
                 header=rng.choice([None, ["", "", ""], ["M  CHG  1   1   1", "M  ISO", "M  END"], ["glycine, V2000", "  prog", "converted from V3000"],
                                    ["x", "y", "  0  0  0     0  0            999 V3000"]]),
                 two_line_records=rng.choice([0, 0, 0.3]), counts_noise=rng.random() < 0.5)
    work = mol
    if enc in ("codes", "lines", "stale", "agree"):
        v2.encoding = enc
    elif enc == "chg_only":
        # only M  CHG lines exist, atom block carries doublet-radical codes: they are superseded -> the molecule stated has no radicals
        work = mol.copy()
        for a in work.atoms:
            a.rad = 0
        if not any(a.chg for a in work.atoms):
            work.atoms[0].chg = 1
        v2.encoding = "stale"
        ctx.count("cov_chg_only_lines_with_radical_codes")
    elif enc == "rad_only":
        work = mol.copy()
        for a in work.atoms:
            a.chg = 0
        if not any(a.rad for a in work.atoms):
            work.atoms[0].rad = 2
        v2.encoding = "stale"
        ctx.count("cov_rad_only_lines_with_codes")
    obs = {}
    t2 = ctab.render_v2000(work, v2, rng, obs)
    t3 = ctab.render_v3000(work, V3Style(dt_symbols=v2.dt_symbols), random.Random(0))
    ctx.evaluations += 1
    try:
        g2 = mr.graph_from_molfile_text(t2)
    except Exception as e:
        ctx.violation("reader-v2000:model", {"what": "reader raised on a conformant V2000 rendering", "exception": f"{type(e).__name__}: {e}"[:300], "text": t2[:3000]}, case)
        return
    g3 = mr.graph_from_molfile_text(t3)
    from ..core import merge_obs
    merge_obs(ctx.obs, obs)
    if len(work.atoms) >= 100:
        ctx.count("cov_three_digit_indices")
    if any(len(f"{v:.4f}") >= 10 for a in work.atoms for v in (a.y, a.z)):
        ctx.count("cov_adjacent_fixed_width_fields")
    exp_nodes, exp_edges = ctab.expected_nodes(work), ctab.expected_edges(work)
    ctx.mon("c08_v2000_vs_model")
    got = ctab.observed_nodes(g2)
    if got != exp_nodes:
        k = next((k for k in range(min(len(got), len(exp_nodes))) if got[k] != exp_nodes[k]), None)
        ctx.violation("reader-v2000:model", {"what": "V2000 reader result differs from the molecule the file states", "position": k,
                                              "stated": exp_nodes[k] if k is not None else None, "read": got[k] if k is not None else None, "text": t2[:3000]}, case)
        return
    if ctab.observed_edges(g2, by_position=True) != exp_edges:
        ctx.violation("reader-v2000:model", {"what": "V2000 bonds differ from the molecule the file states", "text": t2[:3000]}, case)
        return
    ctx.mon("c08_v2000_vs_v3000")
    n2, n3 = ctab.observed_nodes(g2), ctab.observed_nodes(g3)
    e2, e3 = ctab.observed_edges(g2, by_position=True), ctab.observed_edges(g3, by_position=True)
    if n2 != n3 or e2 != e3:
        diff = [(k, n2[k], n3[k]) for k in range(min(len(n2), len(n3))) if n2[k] != n3[k]][:2]
        ctx.violation("reader-v2000:vs-v3000", {"what": "V2000 and V3000 renderings of one molecule are read as different atoms/bonds", "differing_atoms": repr(diff)[:600],
                                                 "v2000": t2[:2500], "v3000": t3[:2500]}, case)
        return
    ctx.mon("c08_string_compare")
    s2, s3 = pipeline(g2), pipeline(g3)
    if s2 != s3:
        ctx.violation("reader-v2000:string", {"what": "V2000 and V3000 renderings get different TUCAN strings", "s_v2000": s2[:300], "s_v3000": s3[:300]}, case)
        return
    if "M  " in t2.split("V2000", 1)[1].replace("M  END", "") or obs.get("codes_used"):
        ctx.nontrivial(t2)
    ctx.sample({"v2000": t2[:900], "atoms": len(work.atoms), "encoding": v2.encoding, "string": s2[:80]}, cap=2)


def run(ctx):
    bridge.import_tucan()
    plan = PLAN[ctx.tier]
    rng = ctx.rng
    for k in range(common.share(ctx, plan["cases"])):
        mol = gen_mol(rng)
        run_case(ctx, {"mol": mol.to_json(), "vseed": f"{ctx.seed}/{ctx.shard}/{k}"})
    # call histories over one drawing: isotopologues / charge states of ONE skeleton with identical coordinates read one after the other
    # (label set 1, no labels, label set 2), and drawings without coordinates (all atom lines of one element textually identical)
    for k in range(common.share(ctx, plan["cases"] // 8)):
        base = gen_mol(rng)
        if rng.random() < 0.5:
            for a in base.atoms:
                a.x = a.y = a.z = 0.0
            ctx.count("cov_identical_atom_lines_in_one_file")
        for step in range(3):
            m = base.copy()
            for a in m.atoms:
                if step == 1:
                    a.chg = a.rad = a.mass = 0
                elif step == 2:
                    a.chg = rng.choice([0, 0, 1, -1])
                    a.rad = rng.choice([0, 0, 2])
                    a.mass = rng.choice([0, 0, 13 if a.sym != "H" else 2])
            run_case(ctx, {"mol": m.to_json(), "vseed": f"{ctx.seed}/{ctx.shard}/h{k}/{step}", "encoding": rng.choice(["lines", "codes", "stale"])})
        ctx.count("cov_isotopologue_history")
    for k in range(common.share(ctx, plan["big"])):
        mol = gen_mol(rng, big=True)
        run_case(ctx, {"mol": mol.to_json(), "vseed": f"{ctx.seed}/{ctx.shard}/b{k}"})
    for k in range(common.share(ctx, plan["huge"])):
        mol = gen_mol(rng, huge=True)
        run_case(ctx, {"mol": mol.to_json(), "vseed": f"{ctx.seed}/{ctx.shard}/H{k}"})
        ctx.count("cov_990_to_999_atoms")


    for path, mol in common.corpus_mols(ctx):
        if len(mol.atoms) <= 999 and len(mol.bonds) <= 999:
            for a in mol.atoms:  # V2000 coordinates carry four decimals: snap the drawing (non-identity data) to the representable grid
                a.x, a.y, a.z = round(a.x, 4), round(a.y, 4), round(a.z, 4)
            run_case(ctx, {"mol": mol.to_json(), "vseed": f"{ctx.seed}/corpus/{mol.name}"})
            ctx.count("cov_corpus_as_v2000")


def replay(ctx, w):
    bridge.import_tucan()
    run_case(ctx, w["case"])
