"""C14 - results are deterministic across processes, call histories and threads.

Result-fingerprint log compared against a reference table (fresh single-threaded process, PYTHONHASHSEED=0, canonical order) over three sweeps:
configurations (hash seeds), histories (shuffled orders, cold/warm, disturbances, rejected inputs first), schedules (T threads from a cold ANTLR
cache under sys.setswitchinterval(1e-6) and sys.monitoring LINE yield injection in antlr4/tucan code, with a hook observing cache fills)."""
import json
import os
import random
import subprocess
import sys

from .. import bridge
from ..gen import mols as G, strings as GS
from ..oracles import ctab
from ..oracles.ctab import V2Style, V3Style
from . import common

PY = "/venv/bin/python"
RUNNER = os.path.join(os.path.dirname(os.path.dirname(os.path.abspath(__file__))), "c14_runner.py")

JOBS = {
    "quick": ([("config", s) for s in ("1", "42", "4294967295", "r1")] + [("history", i) for i in range(3)] +
              [("coldstart", 0), ("coldstart", 1)] + [("preempt", (i, 2)) for i in range(2)] +
              [("threads", (2, 0.02, 0)), ("threads", (4, 0.02, 1)), ("threads", (8, 0.01, 2)), ("threads", (4, 0.005, 4))]),
    "thorough": ([("config", s) for s in ["0", "1", "42", "4294967295"] + [f"r{i}" for i in range(36)]] + [("history", i) for i in range(20)] +
                 [("coldstart", i) for i in range(8)] + [("preempt", (i, 8)) for i in range(8)] +
                 [("threads", (T, p, i)) for i, (T, p) in enumerate([(2, 0.02), (4, 0.02), (8, 0.01), (2, 0.05), (4, 0.005), (8, 0.02)] * 5)] + [("bigwrite", 0)]),
}
SPEC = {
    "level": "exploration",
    "level_text": 'Exploration over configurations, histories and schedules: a 250-operation list is fingerprinted in a fresh reference process and replayed under other hash seeds, in shuffled orders with disturbances and rejected inputs first, and from 2-8 threads on a cold ANTLR cache with sys.monitoring yield injection; the evidence reports context switches, cache fills per thread and distinct interleaving signatures actually observed. Interleavings are sampled, not enumerated.',
    "technique": "result-fingerprint log compared across hash seeds, call histories and injected thread schedules (sys.monitoring LINE yield injection + ANTLR cache-fill observer)",
    "rule": ("operation list: ~25 V3000 texts and ~12 V2000 texts (rendered + corpus) x {read, canonicalize, pipeline string, write}, ~25 valid strings x {parse, norm, write}, ~15 invalid strings x parse "
             "(exception type and message are results); sweeps: hash seeds (quick 6 / thorough 40), histories (shuffled order, rejected inputs first, cold+warm, disturbances: random.seed, "
             "permute_molecule, failing parse), schedules (2/4/8 threads on own objects from a cold ANTLR cache under yield injection). distinct_nontrivial = distinct (operation, sweep "
             "configuration) pairs executed and compared, configuration = hash seed / history number / (threads, yield seed)"),
    "assumptions": ["threads operate on their own graph objects built from shared immutable texts (sharing one mutable graph between threads is outside the statement)",
                    "the 10 timestamp characters of header line 2 of a written molfile are masked", "yield injection only at line starts of antlr4/tucan Python code; no pre-emption inside C calls"],
    "shards": {"quick": len(JOBS["quick"]), "thorough": len(JOBS["thorough"])},
    "monitors_required": ["c14_config_compare", "c14_history_compare", "c14_schedule_compare", "c14_coldstart_compare", "c14_preempt_compare", "c14_reference_tables_agree"],
    "required_obs": {"quick": ["cov_config_optimize_and_int_limit", "preempt_schedules", "coldstart_context_switches_observed", "context_switches_observed", "cov_invalid_parse_ops", "cov_distinct_schedule_signatures_ge_2", "cov_hash_seeds", "disturbances"]},
    "watchdog_s": {"quick": 1500, "thorough": 7200},
}


def build_ops(repo, seed):
    """The fixed operation list (deterministic in seed)."""
    rng = random.Random(f"c14ops/{seed}")
    ops = []

    def add(op, inp, **kw):
        ops.append({"id": f"{len(ops)}:{op}", "op": op, "input": inp, **kw})
    texts3, texts2 = [], []
    for k in range(14):
        mol = rng.choice([G.random_organic, G.symmetric, G.multi_component, G.all_elements])(rng)
        if len(mol.atoms) > 30:
            mol = G.random_organic(rng, 2, 20)
        texts3.append(ctab.render_v3000(mol, V3Style(kw_shuffle=True, split="random", blanks=2, dt_symbols=True), rng))
        if ctab.v2000_representable(mol) and len(texts2) < 8:
            texts2.append(ctab.render_v2000(mol, V2Style(encoding="lines", per_line=3), rng))
    # atoms carrying isotope AND radical (attribute blocks with two keys), and one drawing in several label states (identical atom lines
    # across inputs): places where set order or a cache keyed by text would show
    from ..oracles.ctab import Atom, Mol
    for k in range(4):
        base = G.random_organic(rng, 3, 12)
        for a in base.atoms:
            a.x, a.y, a.z = round(a.x, 4), round(a.y, 4), round(a.z, 4)
            a.mass = min(a.mass, 999)
        both = base.copy()
        for a in both.atoms[: 1 + k % 3]:
            a.mass, a.rad = (13 if a.sym != "H" else 2), rng.choice([1, 2, 3])
        plain = base.copy()
        for a in plain.atoms:
            a.mass = a.rad = a.chg = 0
        for m in (both, plain, base):
            texts3.append(ctab.render_v3000(m, V3Style(), rng))
            if ctab.v2000_representable(m):
                texts2.append(ctab.render_v2000(m, V2Style(encoding="lines"), rng))
    # V2000 atom-block charge/radical codes, also on D/T atoms (deuteron, tritium radical), next to plain files using the same codes
    for k in range(3):
        ions = Mol([Atom("H", 1, 0, 2, 0.0, 0.0, 0.0), Atom("N", 1, 0, 0, 1.0, 0.0, 0.0), Atom("H", 0, 2, 3, 2.0, float(k), 0.0), Atom("C", 0, 2, 0, 3.0, 0.0, 0.0),
                    Atom("O", -1, 0, 0, 4.0, 0.0, 0.0)], [(1, 3, 1), (3, 4, 1)], "ions")
        texts2.append(ctab.render_v2000(ions, V2Style(encoding="codes", dt_symbols=True), rng))
        plain = Mol([Atom("N", 1, 0, 0, 1.0, 0.0, 0.0), Atom("C", 0, 2, 0, 3.0, 0.0, 0.0), Atom("O", -1, 0, 0, 4.0, 0.0, 0.0)], [(0, 1, 1), (1, 2, 1)], "plain")
        texts2.append(ctab.render_v2000(plain, V2Style(encoding="codes"), rng))
    for k in range(4):
        m = G.random_organic(rng, 3, 10)
        for a in m.atoms:
            a.x, a.y, a.z = round(a.x, 4), round(a.y, 4), round(a.z, 4)
            a.mass = min(a.mass, 999)
        m.bonds = [(i, j, t if 1 <= t <= 8 else 1) for i, j, t in m.bonds]
        if ctab.v2000_representable(m):
            texts2.append(ctab.render_v2000(m, V2Style(encoding="lines", two_line_records=0.8, unrelated=0.3), rng))
    files = common.corpus_files(repo)
    for f in rng.sample(files, min(10, len(files))):
        t = open(f).read()
        if len(t) < 12000:
            texts3.append(t)
    for f in common.corpus_files(repo, "v2000"):
        texts2.append(open(f).read())
    for t in texts3 + texts2:
        add("read", t); add("canon_text", t); add("ser_text", t); add("write_text", t)
    # isomers whose default renderings have the same size: read one after the other from one path with one modification time
    for bonds in ([(0, 1, 1), (1, 2, 1), (2, 3, 1)], [(0, 1, 1), (1, 2, 1), (1, 3, 1)], [(0, 1, 1), (0, 2, 1), (2, 3, 1)], [(0, 3, 1), (1, 3, 1), (2, 3, 1)]):
        iso_mol = Mol([Atom("C", 0, 0, 0, 0.0, 0.0, 0.0), Atom("C", 0, 0, 0, 0.0, 0.0, 0.0), Atom("C", 0, 0, 13, 0.0, 0.0, 0.0), Atom("O", 0, 0, 0, 0.0, 0.0, 0.0)], bonds, "C3O isomer")
        add("read_file", ctab.render_v3000(iso_mol, V3Style(), random.Random(7)))  # same spelling choices for all four: equal sizes
    bridge.import_tucan(repo)
    for s in ("CH3/(1-4)(2-4)(3-4)/(4:rad=2,mass=13)", "C2H6O/(1-7)(2-7)(3-7)(4-8)(5-8)(6-9)(7-8)(8-9)/(9:mass=18)(9:rad=2)(1:mass=2)", "He2//(2:mass=3,rad=1)(1:rad=1)"):
        add("parse", s); add("norm", s); add("write_tucan", s)
    for k in range(24):
        s = GS.random_sentence(rng, 25)
        if s.startswith("/"):
            continue
        add("parse", s); add("norm", s)
        if k % 3 == 0:
            add("write_tucan", s)
    for s in ("C2H6O/(1-7)(2-7)(3-7)(4-8)(5-8)(6-9)(7-8)(8-9)", "C6/(1-2)(1-3)(2-4)(3-5)(4-6)(5-6)", "H2O/(1-3)(2-3)/(1:mass=2)"):
        add("write_calc", s)
    # tiny labelled inputs for the systematic pre-emption sweep (H-O-D with a radical on O: isotope and radical decide the numbering)
    hod = Mol([Atom("H", 0, 0, 0, 0.0, 0.0, 0.0), Atom("O", 0, 2, 0, 1.0, 0.0, 0.0), Atom("H", 0, 0, 2, 2.0, 0.0, 0.0)], [(0, 1, 1), (1, 2, 1)], "HOD")
    add("ser_text", ctab.render_v3000(hod, V3Style(), rng), tiny=True)
    add("ser_text", ctab.render_v2000(hod, V2Style(encoding="lines"), rng), tiny=True)
    add("norm", "H2O/(1-3)(2-3)/(2:mass=2)(3:rad=2)", tiny=True)
    bad = ["", "C", "C/", "CH4/(1-2", "HC/", "C2H6/(1-2)(1-9)", "C/(1-1)", "CH4/(1-2)/(1:mass=2,mass=3)", "C1H4/", "Cl2/(1-2)/(3:rad=1)", "c/", "C H/", "CH4/(0-1)",
           "CH4/(1-2)/(1:mass=0)", "Xe/(1-2)", "CH4/(1–2)"]
    for s in bad:
        add("parse", s, invalid=True)
        m, _ = GS.mutate("C2H6O/(1-3)(2-3)(3-9)/(9:mass=18)", rng)
        add("parse", m, invalid=True)
    return ops


def runner(ctx, args, hashseed="0", timeout=1200, extra_env=None):
    env = dict(os.environ)
    env.update(extra_env or {})
    env["PYTHONHASHSEED"] = hashseed
    env["TUCAN_VERIF_REPO"] = ctx.repo
    env.pop("PYTHONPATH", None)
    p = subprocess.run([PY, RUNNER] + [str(a) for a in args], env=env, stdout=subprocess.PIPE, stderr=subprocess.PIPE, text=True, timeout=timeout, cwd=os.getcwd())
    if p.returncode != 0:
        raise RuntimeError(f"INCONCLUSIVE c14 runner failed rc={p.returncode}: {p.stderr[-800:]}")
    return json.loads(p.stdout)


def run(ctx):
    kind, arg = JOBS[ctx.tier][ctx.shard]
    ops = build_ops(ctx.repo, ctx.seed)
    tag = f"c14_{ctx.shard}"
    ops_path, table_path = os.path.abspath(f"{tag}_ops.json"), os.path.abspath(f"{tag}_table.json")
    json.dump(ops, open(ops_path, "w"))
    table = runner(ctx, [ops_path, "table"], "0")
    json.dump(table, open(table_path, "w"))
    ctx.obs["reference_table_digest"] = [__import__("hashlib").sha1(json.dumps(table, sort_keys=True).encode()).hexdigest()[:16]]
    ctx.obs["ops_in_list"] = len(ops)
    ctx.count("cov_invalid_parse_ops", sum(1 for o in ops if o.get("invalid")))
    byid = {o["id"]: o for o in ops}
    if ctx.shard == 0:
        ctx.sample({"operation": ops[0]["op"], "input": ops[0]["input"][:300], "fingerprint": table[ops[0]["id"]]})
        ctx.sample({"operation": ops[-1]["op"], "input": ops[-1]["input"][:80], "fingerprint": table[ops[-1]["id"]]})
    if kind == "bigwrite":
        # writing a molfile body with calc_coordinates=True for a molecule beyond 500 atoms (costly: ~80 s per write), two fresh processes x two hash seeds
        n = 501
        big = [{"id": "0:write_calc", "op": "write_calc", "input": f"C{n}/" + "".join(f"({i}-{i + 1})" for i in range(1, n))}]
        json.dump(big, open(ops_path, "w"))
        tables = [runner(ctx, [ops_path, "table"], hs, timeout=3000) for hs in ("0", "0", "12345")]
        ctx.evaluations += 3
        ctx.mon("c14_config_compare", 3)
        ctx.count("cov_calc_coordinates_write_ge_500_atoms")
        if len({json.dumps(t, sort_keys=True) for t in tables}) > 1:
            ctx.violation("config:fresh-processes", {"what": "graph_to_molfile(calc_coordinates=True) of one 501-atom molecule differs between processes", "digests": [list(t.values()) for t in tables]},
                          {"kind": "bigwrite"})
        for f in (ops_path, table_path):
            os.path.exists(f) and os.unlink(f)
        return
    if kind == "config":
        hs = arg if not arg.startswith("r") else str(random.Random(f"{ctx.seed}/{arg}").randrange(1, 2 ** 32))
        # every second configuration also changes interpreter settings a host application may use: -OO (asserts and docstrings stripped),
        # the int<->str digit limit switched off
        extra = {"PYTHONOPTIMIZE": "2", "PYTHONINTMAXSTRDIGITS": "0", "RV_LOGGING": "DEBUG"} if (ctx.shard % 2 == 1) else None
        if extra:
            ctx.count("cov_config_optimize_and_int_limit")
        t2 = runner(ctx, [ops_path, "table"], hs, extra_env=extra)
        ctx.evaluations += len(ops)
        ctx.mon("c14_config_compare", len(ops))
        ctx.seen("cov_hash_seeds", hs)
        for oid, d in table.items():
            ctx.nontrivial((oid, "hashseed", hs))
            if t2.get(oid) != d:
                ctx.violation("config:hash-seed", {"what": "result differs between PYTHONHASHSEED=0 and another hash seed", "hash_seed": hs, "operation": byid[oid]["op"], "input": byid[oid]["input"][:600]},
                              {"kind": "config", "hashseed": hs, "op": byid[oid]})
    elif kind == "preempt":
        part, parts = arg
        tiny = [o for o in ops if o.get("tiny")]
        for op in tiny:
            r = runner(ctx, [ops_path, "preempt_sweep", table_path, op["id"], 1 + part, parts], timeout=1200)
            ctx.evaluations += 2 * r["schedules"]
            ctx.mon("c14_preempt_compare", 2 * r["schedules"])
            ctx.count("preempt_schedules", r["schedules"])
            ctx.maxi("max_preempt_lines_in_operation", r["lines_in_operation"] or 0)
            ctx.nontrivial(("preempt", op["id"], part, r["schedules"]))
            for f in r["failing"][:3]:
                ctx.violation("schedule:pre-emption", {"what": "result differs when another thread runs the same operation while this one is suspended at one of its source lines (cold process)",
                                                       "operation": op["op"], "input": op["input"][:400], "suspended_at": f["suspended_at"], "k": f["k"],
                                                       "suspended_thread_ok": f["a_ok"], "other_thread_ok": f["b_ok"]},
                              {"kind": "preempt", "op_id": op["id"], "k": f["k"]})
    elif kind == "coldstart":
        n_proc = 12 if ctx.tier == "quick" else 24
        for i in range(n_proc):
            T, p = [(2, 0.5), (3, 0.3), (4, 0.2), (2, 0.15)][i % 4]
            r = runner(ctx, [ops_path, "coldstart", table_path, f"{ctx.seed}/{arg}/{i}", T, p], timeout=300)
            ctx.evaluations += r["executed"]
            ctx.mon("c14_coldstart_compare", r["executed"])
            ctx.count("coldstart_processes")
            ctx.count("coldstart_context_switches_observed", r["context_switches_observed"])
            ctx.nontrivial(("coldstart", arg, i, r["context_switches_observed"]))
            for m in r["mismatches"][:3]:
                ctx.violation("schedule:cold-start", {"what": "the first library calls of a fresh process, made from several threads at once, give another result than the same calls made alone", **m},
                              {"kind": "coldstart", "T": T, "p": p, "yseed": f"{ctx.seed}/{arg}/{i}"})
            if r["errors"]:
                ctx.violation("schedule:cold-start", {"what": "an operation escaped with an exception when it was among the first calls of the process", "errors": r["errors"]},
                              {"kind": "coldstart", "T": T, "p": p, "yseed": f"{ctx.seed}/{arg}/{i}"})
    elif kind == "history":
        n_hist = 3 if ctx.tier == "quick" else 6
        r = runner(ctx, [ops_path, "history", table_path, f"{ctx.seed}/{arg}", n_hist])
        ctx.evaluations += r["executed"]
        ctx.mon("c14_history_compare", r["executed"])
        ctx.obs["disturbances"] = sum(r["disturbances"].values())
        for oid in table:
            for hno in range(n_hist):
                ctx.nontrivial((oid, "history", arg, hno))
        for m in r["mismatches"]:
            ctx.violation("history:order", {"what": "result depends on what was processed earlier in the process", **m}, {"kind": "history", "hist_seed": f"{ctx.seed}/{arg}", "n": n_hist})
    else:
        T, p, ys = arg
        r = runner(ctx, [ops_path, "threads", table_path, f"{ctx.seed}/{ys}", T, p, max(8, 80 // T) if ctx.tier == "quick" else 120])
        ctx.evaluations += r["executed"]
        ctx.mon("c14_schedule_compare", r["executed"])
        for k in ("context_switches_observed", "fill_alternations", "yields_injected", "line_events", "cache_fills"):
            ctx.count(k, r[k])
        if r["threads_that_filled_cache"] >= 2:
            ctx.count("cov_threads_that_filled_cache_ge_2")
        ctx.obs["fill_signatures"] = [r["fill_signature"]]
        ctx.obs.setdefault("schedule_runs", []).append({k: r[k] for k in ("threads", "context_switches_observed", "threads_that_filled_cache", "fill_alternations", "yields_injected", "wall_s")})
        ctx.nontrivial(("threads", T, ys, r["fill_signature"]))
        if r["errors"]:
            ctx.violation("schedule:threads", {"what": "operation escaped with an exception under concurrency", "errors": r["errors"]}, {"kind": "threads", "T": T, "p": p, "yseed": f"{ctx.seed}/{ys}"})
        for m in r["mismatches"]:
            ctx.violation("schedule:threads", {"what": "result differs when other threads run the same operations concurrently", **m}, {"kind": "threads", "T": T, "p": p, "yseed": f"{ctx.seed}/{ys}"})
    for f in (ops_path, table_path):
        os.unlink(f)


def post_merge(res, tier, seed, repo, work):
    digests, sigs = set(), set()
    for r in res:
        if r.get("ok"):
            digests.update(r["obs"].get("reference_table_digest", []))
            sigs.update(r["obs"].get("fill_signatures", []))
    out = {"obs": {"cov_distinct_schedule_signatures_ge_2": 1 if len(sigs) >= 2 else 0, "distinct_fill_interleaving_signatures": len(sigs), "distinct_reference_tables": len(digests)},
           "monitor_evals": {"c14_reference_tables_agree": len([r for r in res if r.get("ok")])}, "violations": []}
    if len(digests) > 1:
        out["violations"].append({"property": "C14", "monitor": "config:fresh-processes", "seed": seed, "tier": tier, "shard": -1,
                                  "witness": {"what": "reference tables computed in fresh processes with the same configuration differ", "digests": sorted(digests)}, "case": {"kind": "tables"}})
    return out


def replay(ctx, w):
    case = w["case"]
    if case.get("kind") == "bigwrite":
        ops_path = os.path.abspath("c14_big_ops.json")
        n = 501
        json.dump([{"id": "0:write_calc", "op": "write_calc", "input": f"C{n}/" + "".join(f"({i}-{i + 1})" for i in range(1, n))}], open(ops_path, "w"))
        tables = [runner(ctx, [ops_path, "table"], hs, timeout=3000) for hs in ("0", "12345")]
        ctx.evaluations += 2
        if tables[0] != tables[1]:
            ctx.violation("config:fresh-processes", {"what": "graph_to_molfile(calc_coordinates=True) of one 501-atom molecule differs between processes"}, case)
        return
    ops = build_ops(ctx.repo, w.get("seed", 0))
    ops_path, table_path = os.path.abspath("c14_ops.json"), os.path.abspath("c14_table.json")
    json.dump(ops, open(ops_path, "w"))
    table = runner(ctx, [ops_path, "table"], "0")
    json.dump(table, open(table_path, "w"))
    byid = {o["id"]: o for o in ops}
    if case["kind"] == "config":
        t2 = runner(ctx, [ops_path, "table"], case["hashseed"])
        for oid, d in table.items():
            if t2.get(oid) != d:
                ctx.violation("config:hash-seed", {"what": "result differs between hash seeds", "operation": oid}, case)
    elif case["kind"] == "history":
        r = runner(ctx, [ops_path, "history", table_path, case["hist_seed"], case["n"]])
        for m in r["mismatches"]:
            ctx.violation("history:order", {"what": "result depends on history", **m}, case)
    elif case["kind"] == "preempt":
        r = runner(ctx, [ops_path, "preempt", table_path, case["op_id"], case["k"]])
        if not (r["a_ok"] and r["b_ok"]):
            ctx.violation("schedule:pre-emption", {"what": "result differs under a single pre-emption", **r}, case)
    elif case["kind"] == "coldstart":
        r = runner(ctx, [ops_path, "coldstart", table_path, case["yseed"], case["T"], case["p"]])
        for m in r["mismatches"]:
            ctx.violation("schedule:cold-start", {"what": "result differs when the call is among the first of the process, from several threads", **m}, case)
    elif case["kind"] == "threads":
        r = runner(ctx, [ops_path, "threads", table_path, case["yseed"], case["T"], case["p"], 120])
        for m in r["mismatches"]:
            ctx.violation("schedule:threads", {"what": "result differs under concurrency", **m}, case)
    ctx.evaluations += 1
