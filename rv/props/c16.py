"""C16 - the permutation helper returns a faithful relabelled copy.

Deciding monitor: snapshot/ensure contract on tucan.graph_utils.permute_molecule using unique atom and bond tags."""
import random

from .. import bridge, monitors
from ..gen import mols as G
from . import common, molprops

SPEC = {
    "level": "exploration",
    "level_text": "Exploration: snapshot/ensure contract with unique atom/bond tags on permute_molecule (same label set, label order, isomorphic image with all attributes, argument unchanged, same seed -> same result, edge set changed when required), on graphs in and out of label order, stars/near-complete graphs, and through the library's own caller in tucan.test_utils.",
    "suite_under_monitor": True,
    "technique": "runtime contract (icontract snapshot+ensure) on permute_molecule with unique atom/bond tags",
    "rule": ("cases: M1 n<=4, M2, M3, M4, M5, stars and K_n minus one edge (few edge-changing permutations -> long retry loops), K_n (no enforcement), "
             "0/1-bond molecules, corpus; graphs with non-consecutive / string labels; seeds on a grid of [0,1) and random. Also the library's own caller "
             "tucan.test_utils.permutation_invariance is run under the contract. distinct_nontrivial = distinct (molecule, seed) pairs with >=2 bonds, not complete"),
    "assumptions": ["seeds in [0,1) as documented"],
    "monitors_required": ["c16_permute"],
    "required_obs": {"quick": ["cov_enforced", "cov_not_enforced_complete", "cov_not_enforced_few_bonds", "cov_star_or_near_complete", "cov_corpus", "cov_nonconsecutive_labels", "cov_input_iteration_order_differs_from_labels"]},
    "watchdog_s": {"quick": 900, "thorough": 3600},
}
PLAN = {
    "quick": {"small_n": 4, "random": {"M2": 1500, "M3": 800, "M4": 300, "M5": 300}, "seeds": 3, "corpus": True, "special": 200},
    "thorough": {"small_n": 5, "small_sample": 0.1, "random": {"M2": 15000, "M3": 8000, "M4": 3000, "M5": 3000}, "seeds": 6, "corpus": True, "special": 2000, "cfi": 4},
}
GRID = [0.0, 0.1, 0.25, 0.42, 0.5, 0.75, 0.999999]


def run_case(ctx, case):
    return common.case_guard(ctx, case, _run_case)


def _run_case(ctx, case):
    import networkx as nx
    import tucan.graph_utils as gu
    try:
        import tucan.test_utils as tu
    except Exception:
        tu = None
    plan = PLAN[ctx.tier]
    rng = random.Random(case["vseed"])
    g0, mol = molprops.build_case_graph(case)
    for u, v, d in g0.edges(data=True):
        d.setdefault(bridge.BTAG, f"{min(u, v)}-{max(u, v)}")
    if case.get("labels") != "gaps" and rng.random() < 0.5:
        # node iteration order != label order: what nx.relabel_nodes / canonicalize_molecule hand on
        if rng.random() < 0.5:
            g0 = bridge.harness_relabel(g0, rng)[0]
        else:
            import tucan.canonicalization as c
            g0 = monitors.S.orig.get("canonicalize_molecule", c.canonicalize_molecule)(g0)
        ctx.count("cov_input_iteration_order_differs_from_labels")
    if case.get("labels") == "gaps":
        g0 = nx.relabel_nodes(g0, {v: 3 * v + 7 for v in g0.nodes}, copy=True)
        ctx.count("cov_nonconsecutive_labels")
    seeds = [rng.choice(GRID)] + [rng.random() for _ in range(plan["seeds"] - 1)]
    for seed in seeds:
        ctx.evaluations += 1
        ok, r = molprops.guarded(ctx, case, gu.permute_molecule, g0, seed)
        if not ok:
            return
        enforce = g0.number_of_edges() > 1 and nx.density(g0) != 1
        if enforce:
            ctx.count("cov_enforced")
            ctx.nontrivial((common.graph_key(g0), seed))
        elif g0.number_of_edges() <= 1:
            ctx.count("cov_not_enforced_few_bonds")
        else:
            ctx.count("cov_not_enforced_complete")
    if case.get("special"):
        ctx.count("cov_star_or_near_complete")
    if tu is not None and rng.random() < 0.05 and g0.number_of_nodes() <= 40 and case.get("labels") != "gaps":
        try:
            tu.permutation_invariance(g0, 2, rng.random())
            ctx.count("cov_via_test_utils")
        except TypeError:
            ctx.skip("tucan.test_utils.permutation_invariance has another signature")
        except monitors.MonitorViolation as v:
            ctx.violation(v.monitor, v.witness, case, v.prop)
        except AssertionError:
            ctx.count("note_permutation_invariance_assertion_failed(C01 side)")
    molprops.coverage(ctx, case, g0)
    ctx.sample({"class": case.get("cls"), "name": case.get("name"), "atoms": g0.number_of_nodes(), "bonds": g0.number_of_edges(), "seeds": seeds[:2]})


def special_cases(ctx, plan):
    rng = ctx.rng
    for k in range(common.share(ctx, plan["special"])):
        kind = rng.choice(["star", "Kn-e", "Kn", "P3", "one-bond", "no-bond", "gaps"])
        n = rng.randint(3, 9)
        if kind == "star":
            mol = G.from_edges(n, [(0, i) for i in range(1, n)])
        elif kind == "Kn-e":
            e = G.complete(n)[1][1:]
            mol = G.from_edges(n, e)
        elif kind == "Kn":
            mol = G.from_edges(*G.complete(n))
        elif kind == "P3":
            mol = G.from_edges(3, [(0, 1), (1, 2)])
        elif kind == "one-bond":
            mol = G.from_edges(n, [(0, 1)])
        elif kind == "no-bond":
            mol = G.from_edges(n, [])
        else:
            mol = G.random_organic(rng, 2, 15)
        G.decorate(mol, rng)
        G._unique_coords(mol, rng)
        yield {"kind": "mol", "mol": mol.to_json(), "cls": "special", "name": kind, "special": kind in ("star", "Kn-e"), "labels": "gaps" if kind == "gaps" else None,
               "vseed": f"{ctx.seed}/{ctx.shard}/sp{k}"}


def run(ctx):
    plan = PLAN[ctx.tier]
    monitors.install(ctx, {"C16"}, seed=f"{ctx.seed}/{ctx.shard}")
    for case in molprops.cases(ctx, plan):
        run_case(ctx, case)
    for case in special_cases(ctx, plan):
        run_case(ctx, case)


def replay(ctx, w):
    monitors.install(ctx, {"C16"}, seed="replay")
    run_case(ctx, w["case"])
