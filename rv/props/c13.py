"""C13 - partition classes are label-independent, equitable and respect symmetry.

Deciding monitor: contract on canonicalize_molecule: colour purity + equitability (direct linear check), symmetry
(bliss automorphism generators from igraph as orbit oracle; enumeration for n<=7 as cross-check), label independence
(shadow relabelling compared through unique atom tags)."""
import random

from .. import bridge, monitors
from ..oracles import iso
from . import common, molprops

SPEC = {
    "level": "exploration",
    "level_text": "Exploration: post-condition on canonicalize_molecule checks colour purity and equitability directly, symmetry through bliss automorphism generators (cross-checked by brute force for n<=7), and label independence through tagged shadow relabellings. Workload includes inputs needing > n/2 and > 64 refinement rounds, found by search, so 'ran to the fixed point' is actually exercised.",
    "suite_under_monitor": True,
    "technique": "runtime contract (icontract ensure) on canonicalize_molecule: equitable/colour-pure/orbit-respecting/label-independent classes",
    "rule": ("cases: M1 exhaustive n<=4/5 x two 3-colour palettes (orbits also by enumeration), M2, M3 (known symmetric skeletons), M4, M7-small "
             "(paths/ladders/combs needing many refinement rounds), corpus; distinct_nontrivial = distinct molecules (canonical form / refinement "
             "fingerprint) with >=3 atoms whose automorphism group is non-trivial or whose partition has < n classes"),
    "assumptions": ["orbit oracle = automorphism generators computed by igraph/bliss on the harness's own projection of the result (third-party code, "
                    "a different entry point from the one TUCAN calls); cross-checked against brute-force orbits for n<=7 on every run",
                    "molecules <= 400 atoms for the orbit check"],
    "monitors_required": ["c13_classes", "c13_orbit_check", "c13_label_independence", "c13_orbit_crosscheck"],
    "required_obs": {"quick": ["cov_debug_logging_enabled", "shadow_inputs_with_noncontiguous_labels", "cov_foreign_attributes_with_common_names", "shadow_inputs_with_stale_partition", "shadow_inputs_relabelled_canonical_graph", "c13_classes_coarser_than_orbits", "c13_cases_with_nontrivial_symmetry", "cov_symmetric_partial_orbit", "cov_long_refinement", "cov_refinement_ge_64_rounds_by_construction", "cov_hydrogen_free_polycyclic", "cov_refinement_rounds_gt_half_n", "cov_corpus"]},
    "watchdog_s": {"quick": 900, "thorough": 3600},
}
PLAN = {
    "quick": {"small_n": 4, "two_palettes": True, "random": {"M2": 1200, "M3": 1200, "M4": 300, "M7s": 300, "M7long": 48, "M9poly": 800, "M9deep": 800, "M10hiso": 600, "M12rings": 400}, "k": 2, "corpus": True},
    "thorough": {"small_n": 5, "two_palettes": True, "small_sample": 0.1, "random": {"M2": 10000, "M3": 10000, "M4": 3000, "M7s": 3000, "M7long": 400, "M9poly": 8000, "M9deep": 8000, "M10hiso": 6000, "M12rings": 4000}, "k": 3, "corpus": True, "cfi": 8},
}


def run_case(ctx, case):
    return common.case_guard(ctx, case, _run_case)


def _run_case(ctx, case):
    import tucan.canonicalization as c
    g0, mol = molprops.build_case_graph(case)
    rng = random.Random(case["vseed"])
    if rng.random() < 0.25:
        molprops.add_foreign_attributes(ctx, g0, rng)
    ctx.evaluations += 1
    ok, r = molprops.guarded(ctx, case, c.canonicalize_molecule, g0)
    if not ok:
        return
    n = r.number_of_nodes()
    classes = {d["partition"] for _, d in r.nodes(data=True)}
    if n <= 7:
        # oracle cross-check: orbits by enumeration must be a refinement-compatible with the classes
        colors, edges = bridge.colors_edges(r)
        orb = iso.automorphism_orbits_small(colors, edges)
        nodes = sorted(r.nodes)
        ctx.mon("c13_orbit_crosscheck")
        for a in range(n):
            for b in range(a + 1, n):
                if orb[a] == orb[b] and r.nodes[nodes[a]]["partition"] != r.nodes[nodes[b]]["partition"]:
                    ctx.violation("classes:orbit-enumeration", {"what": "two atoms in one automorphism orbit (by enumeration) have different classes",
                                                                "atoms": [nodes[a], nodes[b]]}, case)
                    return
        n_orb = len(set(orb))
    if n >= 3 and (len(classes) < n):
        ctx.nontrivial(common.graph_key(g0))
    if case.get("cls") == "M7" and n >= 40:
        ctx.count("cov_long_refinement")
    if case.get("cls") == "M7" and n >= 150:
        ctx.count("cov_refinement_ge_64_rounds_by_construction")
    if case.get("cls") == "M9":
        ctx.count("cov_hydrogen_free_polycyclic")
        colors, edges = bridge.colors_edges(r)
        if iso.refinement_rounds(colors, edges) > n // 2:
            ctx.count("cov_refinement_rounds_gt_half_n")
    molprops.coverage(ctx, case, g0)
    ctx.seen("class_count_hist", min(len(classes), 50))
    ctx.sample({"class": case.get("cls"), "name": case.get("name"), "atoms": n,
                "partition_by_label": [r.nodes[v]["partition"] for v in sorted(r.nodes)][:30]})


def run(ctx):
    plan = PLAN[ctx.tier]
    monitors.install(ctx, {"C13"}, k_relabel=plan["k"], seed=f"{ctx.seed}/{ctx.shard}")
    for case in molprops.cases(ctx, plan):
        run_case(ctx, case)


def replay(ctx, w):
    monitors.install(ctx, {"C13"}, k_relabel=8, seed="replay")
    run_case(ctx, w["case"])
