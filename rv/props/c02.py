"""C02 - different molecules never share a TUCAN string.

Trace checker over (string, molecule) events of real pipeline executions, merged across shards:
 (a) exhaustive small sub-space: partition by string must not merge two classes of the independent canonical form;
 (b) near-miss pairs (same formula and degree sequence; label moved; mass<->rad swapped; WL-equivalent twins; CFI twists):
     oracle says non-isomorphic  =>  strings differ;
 (c) every group of events with one string: pairwise independent isomorphism test against the group's first member."""
import json
import os
import random

from .. import bridge
from ..gen import mols as G
from ..oracles import iso
from ..oracles.ctab import Mol, Atom
from . import common

SPEC = {
    "level": "exploration",
    "level_text": "Exploration: offline trace checker over (string, molecule) events of real pipeline runs. On the exhaustive small sub-space the partition by string is compared with the partition by the harness's own brute-force canonical form (so a collision there cannot be missed); beyond it, near-miss pairs whose non-isomorphism is decided by an exact independent oracle must get different strings. A collision among molecules never generated is not excluded.",
    "technique": "offline trace checker over pipeline events: partition-by-string vs independent canonical form (exhaustive small space) + exact isomorphism oracle on near-miss pairs",
    "rule": ("events = (string, molecule) of real pipeline runs on M1 (ALL labelled graphs n<=4 quick / n<=5 thorough x all colourings from a 3-colour palette), "
             "M8 near-miss pairs (2-switches, moved isotope/radical, mass<->rad swap, C6 vs 2xC3, rook4x4 vs Shrikhande, CFI twisted vs untwisted over K4/K33/prism/Q3), "
             "M2/M3/M4 random. distinct_nontrivial = distinct isomorphism classes (independent canonical form or oracle verdict) that were compared with a DIFFERENT class "
             "of equal formula"),
    "assumptions": ["isomorphism oracle: brute-force canonical form n<=8, igraph VF2 above (cross-checked with networkx VF2 and canonical form on small cases each run)"],
    "exhaustive_note": "all labelled simple graphs on n<=4 (quick) / n<=5 (thorough) vertices x 3^n colourings from {C, 13C, C radical}; thorough additionally all 32 768 labelled graphs on 6 carbon atoms",
    "monitors_required": ["c02_partition_compare", "c02_near_miss_pairs", "c02_equal_string_groups", "oracle_selftest"],
    "required_obs": {"quick": ["cov_same_path_same_size_same_mtime_pair", "cov_object_history_pair", "route/direct", "route/v3000", "route/v2000", "cov_label_removed_pair_nonisomorphic", "cov_wl_equivalent_nonisomorphic_pair", "cov_label_moved_pair_nonisomorphic", "cov_cfi_pair", "cov_switch_pair_nonisomorphic", "cov_massrad_pair"]},
    "watchdog_s": {"quick": 900, "thorough": 5400},
}
PLAN = {
    "quick": {"small_n": 4, "pairs": 4000, "random": {"M2s": 1500, "M3": 800, "M4": 300}},
    "thorough": {"small_n": 5, "extra": [(6, [("C", 0, 0)])], "pairs": 40000, "random": {"M2s": 15000, "M3": 8000, "M4": 3000}},
}


class PipelineFailed(Exception):
    pass


def pipeline(g):
    import tucan.canonicalization as c
    import tucan.serialization as s
    try:
        return s.serialize_molecule(c.canonicalize_molecule(g))
    except Exception as e:
        raise PipelineFailed(f"{type(e).__name__}: {e}") from e


def remove_label(mol, rng):
    """Same skeleton, one isotope/radical label dropped: certainly a different molecule."""
    lab = [k for k, a in enumerate(mol.atoms) if a.mass or a.rad]
    if not lab:
        return None
    out = mol.copy()
    a = out.atoms[rng.choice(lab)]
    if a.mass and a.rad and rng.random() < 0.5:
        a.rad = 0
    elif a.mass:
        a.mass = 0
    else:
        a.rad = 0
    out.name += "~label-removed"
    return out


def fixed_twins():
    out = []
    n, e = G.cycle(6)
    out.append(("C6-vs-2xC3", G.from_edges(n, e), G.from_edges(*G.disjoint_copies(G.cycle(3), 2))))
    out.append(("rook4-vs-shrikhande", G.from_edges(*G.rook4()), G.from_edges(*G.shrikhande())))
    out.append(("C8-vs-2xC4", G.from_edges(*G.cycle(8)), G.from_edges(*G.disjoint_copies(G.cycle(4), 2))))
    out.append(("prism3-vs-K33", G.from_edges(*G.prism(3)), G.from_edges(*G.complete_bipartite(3, 3))))
    out.append(("C10-vs-2xC5", G.from_edges(*G.cycle(10)), G.from_edges(*G.disjoint_copies(G.cycle(5), 2))))
    for name, (nb, eb) in (("K4", G.complete(4)), ("K33", G.complete_bipartite(3, 3)), ("prism3", G.prism(3)), ("Q3", G.hypercube(3)), ("C5", G.cycle(5))):
        n1, e1 = G.cfi_pair(list(eb), nb, False)
        n2, e2 = G.cfi_pair(list(eb), nb, True)
        out.append((f"cfi-{name}", G.from_edges(n1, e1), G.from_edges(n2, e2)))
    return out


def route_graph(ctx, mol, rng, force=None):
    """The molecule enters the pipeline directly as a graph or as molfile text written by the harness's renderers
    (free-format V3000 with continuation lines / blank runs / keyword order, or fixed-column V2000)."""
    import tucan.io.molfile_reader as mr
    from ..oracles import ctab
    from .c07 import random_style
    route = force or rng.choice(["direct", "v3000", "v3000", "v2000"])
    if route == "v2000":
        mol = mol.copy()
        mol.bonds = [(i, j, t if 1 <= t <= 8 else 1) for i, j, t in mol.bonds]  # bond type is non-identity data; V2000 knows 1..8
    if route == "v2000" and not ctab.v2000_representable(mol):
        route = "v3000"
    ctx.seen("route", route)
    try:
        if route == "direct":
            return bridge.graph_direct(mol, tag=False)
        if route == "v3000":
            st = random_style(rng, mol)
            st.star = False
            if rng.random() < 0.5:
                st.split, st.split_lines, st.max_len = "kw", "atoms+bonds", 79  # wraps exactly where an isotope/radical item begins
            return mr.graph_from_molfile_text(ctab.render_v3000(mol, st, rng))
        return mr.graph_from_molfile_text(ctab.render_v2000(mol, ctab.V2Style(encoding=rng.choice(["lines", "codes", "stale"]), per_line=rng.choice([0, 1, 2, 3, 5, 8]),
                                                                              dt_symbols=rng.random() < 0.5, unrelated=rng.choice([0, 0.4, 0.7]),
                                                                              two_line_records=rng.choice([0, 0.3]), atom_lists=0, counts_noise=rng.random() < 0.5), rng))
    except Exception as e:
        raise PipelineFailed(f"reader: {type(e).__name__}: {e}") from e


def same_path_pair(ctx, kind, a: Mol, b: Mol):
    """File-system history: the two molecules are written one after the other to the SAME path, with the same modification time (cp -p, rsync -t,
    archives) and - the renderings being fixed-format - usually the same size, and read through graph_from_file."""
    import os
    import tucan.io.molfile_reader as mr
    from ..oracles import ctab
    path = os.path.abspath(f"same_path_{ctx.shard}_{os.getpid()}.mol")
    flat = []
    for m in (a, b):
        m = m.copy()
        for at in m.atoms:
            at.x = at.y = at.z = 0.0  # fixed-format writers: equal sizes for isomers (coordinates and names are not identity data)
        m.name = "pair"
        flat.append(m)
    texts = [ctab.render_v3000(m, ctab.V3Style(), random.Random(0)) for m in flat]
    out = []
    try:
        for t in texts:
            with open(path, "w") as f:
                f.write(t)
            os.utime(path, ns=(1_600_000_000 * 10 ** 9, 1_600_000_000 * 10 ** 9))
            out.append(pipeline(mr.graph_from_file(path)))
    except (PipelineFailed, Exception) as e:
        ctx.hard_inconclusive.append(f"file route raised on a near-miss pair ({kind}): {type(e).__name__}: {e}"[:300])
        return
    finally:
        if os.path.exists(path):
            os.unlink(path)
    ctx.evaluations += 2
    ctx.mon("c02_same_path_pairs")
    if len(texts[0].encode()) == len(texts[1].encode()):
        ctx.count("cov_same_path_same_size_same_mtime_pair")
    if out[0] == out[1]:
        ctx.violation("trace:near-miss-pair", {"what": "two non-isomorphic molecules read one after the other from the same path (same mtime) share one TUCAN string",
                                                "kind": kind, "string": out[0][:400], "same_size": len(texts[0]) == len(texts[1]), "a": a.to_json(), "b": b.to_json()},
                      {"kind": "pair", "a": a.to_json(), "b": b.to_json(), "pairkind": kind, "same_path": True})


def compare_pair(ctx, kind, a: Mol, b: Mol, rng):
    """Pipeline on both (b randomly relabelled), oracle verdict, C02 direction only."""
    b2, _ = G.relabel(b, rng)
    try:
        sa = pipeline(bridge.graph_direct(a))
        sb = pipeline(route_graph(ctx, b2, rng) if len(b2.atoms) <= 40 else bridge.graph_direct(b2))
    except PipelineFailed as e:
        ctx.hard_inconclusive.append(f"pipeline raised on a near-miss pair ({kind}): {e}"[:300])
        return
    ctx.evaluations += 2
    ctx.mon("c02_near_miss_pairs")
    try:
        same = iso.isomorphic(a.colors(), a.edge_pairs(), b2.colors(), b2.edge_pairs())
    except iso.Inconclusive:
        ctx.hard_inconclusive.append(f"oracle budget on {kind}")
        return
    if not same:
        ctx.count(f"cov_{kind}_nonisomorphic")
        ctx.nontrivial(common.mol_key(a)); ctx.nontrivial(common.mol_key(b2))
        if sa == sb:
            ctx.violation("trace:near-miss-pair", {"what": "two non-isomorphic molecules share one TUCAN string", "kind": kind, "string": sa[:400],
                                                    "a": a.to_json(), "b": b2.to_json()}, {"kind": "pair", "a": a.to_json(), "b": b2.to_json(), "pairkind": kind})
        elif len(a.atoms) <= 40 and rng.random() < 0.3:
            same_path_pair(ctx, kind, a, b2)
    else:
        ctx.count(f"cov_{kind}_isomorphic")
        if sa != sb:
            ctx.count("note_c01_side_conflict")
    ctx.sample({"pair": kind, "a": sa[:100], "b": sb[:100], "oracle_isomorphic": same})


def run(ctx):
    plan = PLAN[ctx.tier]
    bridge.import_tucan()
    rng = ctx.rng
    ctx.mon("oracle_selftest", iso.self_test(random.Random(f"{ctx.seed}/{ctx.shard}"), 40))
    ev = open(ctx.events_path, "w")
    # (a) exhaustive small sub-space
    for mol in common.small_exhaustive(ctx, plan["small_n"], extra=plan.get("extra", ())):
        try:
            s = pipeline(bridge.graph_direct(mol, tag=False))
        except PipelineFailed as e:
            ctx.hard_inconclusive.append(f"pipeline raised on {mol.name}: {e}"[:300])
            continue
        ctx.evaluations += 1
        key = iso.canon_small(mol.colors(), mol.edge_pairs())
        ev.write(json.dumps({"s": s, "k": repr(("canon", key)), "x": 1}) + "\n")
    # (c) random classes: string + refinement fingerprint + molecule
    for mol in common.random_classes(ctx, plan["random"]):
        try:
            s = pipeline(route_graph(ctx, mol, rng))
        except PipelineFailed as e:
            ctx.hard_inconclusive.append(f"pipeline raised on {mol.name}: {e}"[:300])
            continue
        ctx.evaluations += 1
        ev.write(json.dumps({"s": s, "k": repr(common.mol_key(mol)), "x": 0, "m": mol.to_json() if len(mol.atoms) <= 40 else None}) + "\n")
    ev.close()
    # (b) near-miss pairs
    if ctx.shard == 0:
        for name, a, b in fixed_twins():
            for rep in range(3):
                compare_pair(ctx, "twin:" + name, a, b, rng)
            if name.startswith("cfi-"):
                ctx.count("cov_cfi_pair")
            ctx.count("cov_wl_equivalent_nonisomorphic_pair")
    # object histories: the SAME graph object is identified, edited in place into a different molecule (a bond removed / an isotope label
    # added) and identified again - the two molecules differ, so must the strings
    for k in range(common.share(ctx, plan["pairs"] // 8)):
        base = G.random_organic(rng, 3, 14)
        if not base.bonds:
            continue
        g = bridge.graph_direct(base, tag=False)
        try:
            s1 = pipeline(g)
            u, v = rng.choice(sorted(g.edges()))
            if rng.random() < 0.5:
                g.remove_edge(u, v)
                what = "bond removed in place"
            else:
                d = g.nodes[u]
                d["mass"] = (d.get("mass") or 0) + 1
                ic = d.get("invariant_code")
                if isinstance(ic, tuple) and len(ic) == 3:
                    d["invariant_code"] = (ic[0], d["mass"], ic[2])
                what = "isotope label changed in place"
            s2 = pipeline(g)
        except PipelineFailed as e:
            ctx.hard_inconclusive.append(f"pipeline raised in an object history: {e}"[:300])
            continue
        ctx.evaluations += 2
        ctx.mon("c02_near_miss_pairs")
        ctx.count("cov_object_history_pair")
        if s1 == s2:
            ctx.violation("trace:object-history", {"what": "one graph object edited in place into a different molecule keeps its TUCAN string", "edit": what, "string": s1[:300],
                                                   "molecule_before": base.to_json()}, {"kind": "history", "mol": base.to_json(), "edit": what})
    for k in range(common.share(ctx, plan["pairs"])):
        base = G.symmetric(rng) if rng.random() < 0.5 else G.random_organic(rng, 3, 14)
        if not any(a.mass or a.rad for a in base.atoms):
            a = base.atoms[rng.randrange(len(base.atoms))]
            a.mass = rng.choice([2, 13, 14])
        kind = rng.choice(["switch_pair", "label_moved_pair", "massrad_pair", "label_removed_pair"])
        other = {"switch_pair": G.edge_switch, "label_moved_pair": G.move_label, "massrad_pair": G.swap_mass_rad, "label_removed_pair": remove_label}[kind](base, rng)
        if other is None:
            continue
        compare_pair(ctx, kind, base, other, rng)
        if kind == "massrad_pair":
            ctx.count("cov_massrad_pair")


def post_merge(res, tier, seed, repo, work):
    """Merge the shards' event logs: partition by string vs partition by independent canonical form."""
    by_string = {}
    n_events = 0
    for f in sorted(os.listdir(work)):
        if not f.endswith(".events"):
            continue
        for line in open(os.path.join(work, f)):
            e = json.loads(line)
            n_events += 1
            by_string.setdefault(e["s"], []).append(e)
    violations, distinct = [], set()
    obs = {"events_merged": n_events, "distinct_strings": len(by_string)}
    mon = {"c02_partition_compare": 0, "c02_equal_string_groups": 0}
    classes_exh = set()
    c01_side = {}
    for s, evs in by_string.items():
        keys = {e["k"] for e in evs}
        for e in evs:
            if e["x"]:
                classes_exh.add(e["k"])
                c01_side.setdefault(e["k"], set()).add(s)
        mon["c02_partition_compare"] += 1
        exact_keys = {e["k"] for e in evs if e["k"].startswith("('canon'") or e["x"]}
        if len(exact_keys) > 1 or len(keys) > 1:
            # different exact canonical forms or different refinement fingerprints => certainly non-isomorphic
            violations.append({"property": "C02", "monitor": "trace:partition-by-string", "seed": seed, "tier": tier, "shard": -1,
                               "witness": {"what": "one TUCAN string for molecules with different independent canonical forms", "string": s[:400], "keys": sorted(keys)[:4],
                                           "molecules": [e.get("m") for e in evs[:3]]},
                               "case": {"kind": "group", "string": s, "molecules": [e.get("m") for e in evs[:4]]}})
        if len(evs) >= 2:
            mon["c02_equal_string_groups"] += 1
            first = next((e for e in evs if e.get("m")), None)
            if first is not None:
                a = Mol.from_json(first["m"])
                for e in evs:
                    if e is first or not e.get("m"):
                        continue
                    b = Mol.from_json(e["m"])
                    if not iso.isomorphic(a.colors(), a.edge_pairs(), b.colors(), b.edge_pairs()):
                        violations.append({"property": "C02", "monitor": "trace:equal-string-group", "seed": seed, "tier": tier, "shard": -1,
                                           "witness": {"what": "equal strings, oracle says non-isomorphic", "string": s[:400], "a": first["m"], "b": e["m"]},
                                           "case": {"kind": "pair", "a": first["m"], "b": e["m"], "pairkind": "equal-string-group"}})
                        break
    obs["exhaustive_isomorphism_classes"] = len(classes_exh)
    obs["exhaustive_classes_with_several_strings(C01 side)"] = sum(1 for v in c01_side.values() if len(v) > 1)
    obs["equal_string_groups_of_size_ge_2"] = mon["c02_equal_string_groups"]
    # classes compared with a different class of equal formula: in the exhaustive space every class with >= 2 atoms is
    from ..core import h
    distinct.update(h(k) for k in classes_exh)
    return {"obs": obs, "violations": violations[:20], "distinct": sorted(distinct), "monitor_evals": mon}


def replay(ctx, w):
    bridge.import_tucan()
    case = w["case"]
    if case["kind"] == "history":
        base = Mol.from_json(case["mol"])
        g = bridge.graph_direct(base, tag=False)
        s1 = pipeline(g)
        u, v = sorted(g.edges())[0]
        g.remove_edge(u, v)
        s2 = pipeline(g)
        ctx.evaluations += 2
        if s1 == s2:
            ctx.violation("trace:object-history", {"what": "graph object edited in place keeps its string", "string": s1[:300]}, case)
        return
    if case["kind"] == "pair" and case.get("same_path"):
        same_path_pair(ctx, case.get("pairkind", "pair"), Mol.from_json(case["a"]), Mol.from_json(case["b"]))
    elif case["kind"] == "pair":
        compare_pair(ctx, case.get("pairkind", "pair"), Mol.from_json(case["a"]), Mol.from_json(case["b"]), random.Random(0))
    elif case["kind"] == "group":
        mols = [Mol.from_json(m) for m in case["molecules"] if m]
        for b in mols[1:]:
            compare_pair(ctx, "group", mols[0], b, random.Random(0))
