"""C07 - the V3000 reader decodes exactly the molecule the file states.

Reference-model monitor on graph_from_molfile_text / graph_from_file: an abstract molecule is rendered by the harness's own V3000
renderer using the spelling freedoms of the format; the reader's result is compared attribute for attribute with what the abstract
molecule states. Explicit defaults are checked relationally (text with CHG=0/RAD=0/MASS=0 vs text without must give equal graphs)."""
import os
import random

from .. import bridge
from ..gen import mols as G
from ..oracles import ctab
from ..oracles.ctab import Mol, V3Style
from . import common

SPEC = {
    "level": "exploration",
    "level_text": "Exploration with a reference model: an independent V3000 renderer spells an abstract molecule using the format's freedoms (continuation dash at random/multiple/every offset, blank runs, keyword order, unrelated keywords, index maps, star atoms with up to 16 endpoints, explicit defaults); the reader's graph must equal the abstract molecule attribute for attribute. Explicit defaults are checked relationally so no representation is prescribed.",
    "technique": "reference-model runtime monitor on the V3000 reader: independent renderer of an abstract molecule, attribute-for-attribute comparison; relational check for explicit defaults",
    "rule": ("cases: abstract molecules (M2 organic with charges/radicals/isotopes/bond types, M3, M4, M5, D/T hydrogens) x renderings drawn from the spelling space: continuation "
             "dash at random / multiple / EVERY offset of atom, bond and COUNTS lines, blank runs 1-6, shuffled key=value order, unrelated spec keywords (CFG VAL HCOUNT STBOX INVRET "
             "EXACHG SUBST UNSAT RBCNT ATTCHPT RGROUPS ATTCHORD CLASS SEQID; bond CFG TOPO RXCTR STBOX DISP), arbitrary unique indices, permuted atom/bond lines, star atoms with "
             "ENDPTS/ATTACH as first or second endpoint, 0-bond files, explicit defaults, exponent/integer coordinate spellings, CRLF, trailing blocks; both entry points. "
             "distinct_nontrivial = distinct rendered texts that use at least one spelling freedom beyond the plain rendering"),
    "assumptions": ["'conformant' = what the CTfile specification permits and the harness renderer produces; headers ASCII; no trailing blanks after a continuation dash; coordinates as fixed-point decimals or in exponent notation with 'e'/'E' (the corpus itself contains 'e' spellings), no leading '+'; physical lines <= 79 characters + newline",
                    "coordinates compare as float(token)"],
    "monitors_required": ["c07_model_compare", "c07_explicit_default_relation"],
    "required_obs": {"quick": ["star_atom_shared_by_several_bond_lines", "split_class", "multi_split_lines", "star_files", "sgroup_text_with_quotes", "star_endpoints_ge_10", "extra_kw/EXACHG", "explicit_default", "explicit_default_mass_on_DT", "dt_seen", "cov_graph_from_file", "cov_every_offset_lines",
                               "cov_zero_bond_file", "cov_crlf", "cov_mixed_lf_crlf_line_terminators", "cov_exponent_notation_coordinates", "cov_corpus_files_vs_own_reader"]},
    "watchdog_s": {"quick": 900, "thorough": 5400},
}
PLAN = {"quick": {"cases": 6000, "every_offset": 24}, "thorough": {"cases": 80000, "every_offset": 600}}


def random_style(rng, mol):
    n, nb = len(mol.atoms), len(mol.bonds)
    st = V3Style()
    if rng.random() < 0.5:
        st.index_map = rng.sample(range(1, 3 * n + 10), n)
    if rng.random() < 0.5:
        st.atom_order = rng.sample(range(n), n)
    if rng.random() < 0.5:
        st.bond_order = rng.sample(range(nb), nb)
    st.bond_flip = [rng.random() < 0.5 for _ in range(nb)]
    if rng.random() < 0.3 and nb:
        st.bond_index_map = rng.sample(range(1, 3 * nb + 5), nb)
    st.blanks = rng.choice([1, 1, 2, 6])
    st.kw_shuffle = rng.random() < 0.7
    st.extra_atom_kw = rng.choice([0, 0.5, 1.5])
    st.extra_bond_kw = rng.choice([0, 0.5, 1.5])
    st.explicit_defaults = rng.choice([0, 0, 0.3, 1.0])
    st.dt_symbols = rng.random() < 0.6
    st.split = rng.choice(["none", "random", "random", "multi", "kw"])
    st.split_lines = rng.choice(["atoms+bonds", "all", "atoms", "bonds", "counts"])
    st.star = (rng.random() < 0.25 or mol.cls == "M11") and nb > 0
    st.star_all = mol.cls == "M11" and rng.random() < 0.7
    st.header = rng.choice([None, ["", "", ""], ["name with - dash", "  prog", "comment-"], ["x" * 79, "y", "M  V30 looks like ctab"],
                            ["name V2000", "  prog V3000", "  3  2  0  0  0  0  0  0  0  0999 V2000"],
                            ["2,2':6',2\"-terpyridine", "  it's \\ a \"name", "5'-O-DMT `x` $HOME #! %s {0}"]])
    st.trailing_blocks = rng.random() < 0.2
    st.after_end = rng.choice(["", "", "$$$$", "> <prop>\n1\n\n$$$$"])
    st.empty_bond_block = rng.random() < 0.3
    st.eol = rng.choice(["\n", "\n", "\r\n", "mixed"])  # LF, CRLF, or both in one file; bare CR only in C06 (line-ending style)
    st.exotic_numbers = rng.random() < 0.25  # exponent notation as some corpus files use it (lower- and upper-case marker)
    st.aamap = rng.random() < 0.3
    st.final_eol = rng.random() < 0.5
    st.counts_extra = rng.random() < 0.2
    st.max_len = rng.choice([79, 79, 40, 30])
    return st


def check_read(ctx, mol, st, text, graph, case):
    """Model comparison. Returns True if a violation was recorded."""
    n = len(mol.atoms)
    order = st.atom_order or list(range(n))
    exp_nodes = [ctab.expected_nodes(mol)[p] for p in order]
    pos_of = {p: k for k, p in enumerate(order)}
    exp_edges = {(min(pos_of[i], pos_of[j]), max(pos_of[i], pos_of[j])): t for i, j, t in mol.bonds}
    ctx.mon("c07_model_compare")
    if graph.number_of_nodes() != n:
        ctx.violation("reader-v3000:model", {"what": "number of atoms differs from the number of non-star atom lines", "nodes": list(graph.nodes)[:40], "n": n, "text": text[:3000]}, case)
        return True
    got_nodes = ctab.observed_nodes(graph)  # in node iteration order = file order
    for k in range(n):
        if got_nodes[k] != exp_nodes[k]:
            ctx.violation("reader-v3000:model", {"what": "atom attributes differ from what the file states", "position": k, "stated": exp_nodes[k], "read": got_nodes[k],
                                                  "text": text[:3000]}, case)
            return True
    got_edges = ctab.observed_edges(graph, by_position=True)
    if got_edges != exp_edges:
        ctx.violation("reader-v3000:model", {"what": "bonds differ from what the file states", "only_stated": [list(map(str, x)) for x in sorted(set(exp_edges.items()) - set(got_edges.items()))][:5],
                                              "only_read": [list(map(str, x)) for x in sorted(set(got_edges.items()) - set(got_edges.items() & exp_edges.items()))][:5], "text": text[:3000]}, case)
        return True
    return False


def read(ctx, text, via_file, tag):
    import tucan.io.molfile_reader as mr
    if via_file:
        path = os.path.abspath(f"c07_{ctx.shard}_{tag}.mol")
        with open(path, "w", newline="") as f:
            f.write(text)
        try:
            ctx.count("cov_graph_from_file")
            return mr.graph_from_file(path)
        finally:
            os.unlink(path)
    return mr.graph_from_molfile_text(text)


def gen_mol(rng):
    r = rng.random()
    if r < 0.06:
        return G.hub(rng)
    if r < 0.5:
        mol = G.random_organic(rng, 1, 18)
    elif r < 0.65:
        mol = G.symmetric(rng)
        G.decorate(mol, rng, 0.05, 0.1)
    elif r < 0.8:
        mol = G.multi_component(rng)
    else:
        mol = G.all_elements(rng, 20)
    for a in mol.atoms:
        if a.sym == "H" and rng.random() < 0.5:
            a.mass = rng.choice([2, 3])
    if rng.random() < 0.3:
        for a in mol.atoms:
            a.x, a.y, a.z = rng.choice([(float(rng.randint(-9, 9)), 0.0, 0.0), (a.x * 1e6, a.y * 1e-6, -a.z), (a.x, a.y, 0.0)])
    return mol


def run_case(ctx, case):
    return common.case_guard(ctx, case, _run_case)


def _run_case(ctx, case):
    mol = Mol.from_json(case["mol"])
    rng = random.Random(case["vseed"])
    st = random_style(rng, mol) if case.get("style") is None else V3Style(**case["style"])
    if case.get("split_at") is not None:
        st.split, st.split_lines = f"at:{case['split_at']}", "all"
    obs = {}
    text = ctab.render_v3000(mol, st, rng, obs)
    ctx.evaluations += 1
    try:
        g = read(ctx, text, rng.random() < 0.1 and st.eol == "\n", case["vseed"].replace("/", "_"))
    except Exception as e:
        ctx.violation("reader-v3000:model", {"what": "reader raised on a conformant rendering", "exception": f"{type(e).__name__}: {e}"[:300], "text": text[:3000]}, case)
        return
    from ..core import merge_obs
    merge_obs(ctx.obs, obs)
    if st.eol == "\r\n":
        ctx.count("cov_crlf")
    if st.eol == "mixed":
        ctx.count("cov_mixed_lf_crlf_line_terminators")
    if st.exotic_numbers:
        ctx.count("cov_exponent_notation_coordinates")
    if not mol.bonds:
        ctx.count("cov_zero_bond_file")
    if check_read(ctx, mol, st, text, g, case):
        return
    plain = ctab.render_v3000(mol, V3Style(), random.Random(0))
    if text != plain:
        ctx.nontrivial(text)
    ctx.sample({"text": text[:700], "atoms": len(mol.atoms), "style": {k: v for k, v in vars(st).items() if k in ("split", "blanks", "star", "explicit_defaults", "max_len")}}, cap=2)


def relational_defaults(ctx, mol, case):
    """text with explicit defaults vs text without: graphs must be equal attribute for attribute (no representation prescribed)."""
    import tucan.io.molfile_reader as mr
    a = ctab.render_v3000(mol, V3Style(explicit_defaults=0.0), random.Random(1))
    b = ctab.render_v3000(mol, V3Style(explicit_defaults=1.0), random.Random(1))
    ga, gb = mr.graph_from_molfile_text(a), mr.graph_from_molfile_text(b)
    ctx.evaluations += 2
    ctx.mon("c07_explicit_default_relation")
    if dict(ga.nodes(data=True)) != dict(gb.nodes(data=True)) or {frozenset(e[:2]): e[2] for e in ga.edges(data=True)} != {frozenset(e[:2]): e[2] for e in gb.edges(data=True)}:
        diff = [(k, dict(ga.nodes[k]), dict(gb.nodes[k])) for k in ga.nodes if dict(ga.nodes[k]) != dict(gb.nodes[k])][:2]
        ctx.violation("reader-v3000:explicit-defaults", {"what": "explicitly written default values are not equivalent to omitting them", "differing_atoms": repr(diff)[:600],
                                                          "text_with_defaults": b[:2000]}, {**case, "relational": True})


def run(ctx):
    bridge.import_tucan()
    plan = PLAN[ctx.tier]
    rng = ctx.rng
    for k in range(common.share(ctx, plan["cases"])):
        mol = gen_mol(rng)
        case = {"mol": mol.to_json(), "vseed": f"{ctx.seed}/{ctx.shard}/{k}"}
        run_case(ctx, case)
        if k % 10 == 0:
            common.case_guard(ctx, {**case, "relational": True}, lambda c_, case_: relational_defaults(c_, mol, case_))
    # corpus molfiles: (a) the file as shipped, judged against the harness's own reader; (b) re-rendered with random spellings
    import tucan.io.molfile_reader as mr
    for path, mol in common.corpus_mols(ctx):
        ctx.evaluations += 1
        ccase = {"mol": mol.to_json(), "vseed": f"corpus/{mol.name}", "corpus_file": path}
        g = common.case_guard(ctx, ccase, lambda c_, case_: mr.graph_from_file(path))
        if g is None:
            continue
        check_read(ctx, mol, V3Style(), open(path).read(), g, ccase)
        ctx.count("cov_corpus_files_vs_own_reader")
        if len(mol.atoms) <= 80:
            run_case(ctx, {"mol": mol.to_json(), "vseed": f"{ctx.seed}/corpus/{mol.name}"})
    # every split offset of every logical line of a few molecules
    for k in range(common.share(ctx, plan["every_offset"])):
        mol = G.random_organic(rng, 2, 7)
        if mol.atoms:
            mol.atoms[0].x = -abs(mol.atoms[0].x) - 1.5
            mol.atoms[0].chg = -2
        style = {"kw_shuffle": True, "dt_symbols": True}
        longest = max(len(l) for l in ctab.render_v3000(mol, V3Style(**style), random.Random(f"{ctx.seed}/{ctx.shard}/e{k}")).splitlines()) - 7
        for c in range(1, longest):
            run_case(ctx, {"mol": mol.to_json(), "vseed": f"{ctx.seed}/{ctx.shard}/e{k}", "style": style, "split_at": c})
        ctx.count("cov_every_offset_lines")


def replay(ctx, w):
    bridge.import_tucan()
    case = w["case"]
    if case.get("relational"):
        relational_defaults(ctx, Mol.from_json(case["mol"]), case)
    else:
        run_case(ctx, case)
