"""C11 - any valid spelling of a molecule normalizes to its one canonical string.

Trace checker over norm(mol_id, spelling_id) events, norm = serialize . canonicalize . parse executed through the real functions.
'Same meaning' holds by construction (the harness respells) and is re-validated per respelling with the reference reader +
independent isomorphism oracle (a failed validation is a harness fault -> inconclusive, never a violation)."""
import random

from .. import bridge
from ..gen import mols as G, strings as GS
from ..oracles import iso, tucan_grammar as tg
from ..oracles.elements import Z
from . import common

SPEC = {
    "level": "exploration",
    "level_text": 'Exploration: norm = serialize.canonicalize.parse is executed on base strings and harness respellings whose equivalence is re-validated by the reference reader and the isomorphism oracle; all spellings of one molecule must normalise to one string, and norm must be idempotent.',
    "technique": "offline trace checker over norm(mol_id, spelling_id) events of the real parse->canonicalize->serialize pipeline; respellings validated by reference reader + isomorphism oracle",
    "rule": ("base strings: canonical strings produced by the pipeline for M2/M3/M4/M5 molecules and hand-style random sentences; each respelled k times by tuple permutation, "
             "endpoint swap, tuple repetition, attribute-block permutation, block splitting, key-order swap, renumbering within element blocks, empty third section; "
             "norm(s') == norm(s) and norm(norm(s)) == norm(s). distinct_nontrivial = distinct base strings with >=2 tuples whose respellings differ textually from the base"),
    "assumptions": ["molecules <= 40 atoms"],
    "monitors_required": ["c11_norm_compare", "c11_idempotence", "respeller_validated"],
    "required_obs": {"quick": ["respell/renumber-within-blocks", "respell/tuple-permutation", "respell/endpoint-swap", "respell/tuple-repetition", "respell/block-permutation",
                               "respell/block-split", "respell/key-order-swap", "cov_hand_style_base", "cov_canonical_base", "cov_bondless_labelled_base", "cov_ring_fragments_plus_acyclic_fragment"]},
    "watchdog_s": {"quick": 900, "thorough": 3600},
}
PLAN = {"quick": {"canonical": 1800, "hand": 1800, "k": 3}, "thorough": {"canonical": 18000, "hand": 18000, "k": 6}}


def norm(s):
    import tucan.parser.parser as pp
    import tucan.canonicalization as c
    import tucan.serialization as se
    return se.serialize_molecule(c.canonicalize_molecule(pp.graph_from_tucan(s)))


def ref_colored(s):
    g = tg.reference_read(s)
    colors = [(Z[e], g.attrs.get(k, {}).get("mass", 0), g.attrs.get(k, {}).get("rad", 0)) for k, e in enumerate(g.elements)]
    return colors, sorted(g.edges)


def run_case(ctx, case):
    return common.case_guard(ctx, case, _run_case)


def _run_case(ctx, case):
    rng = random.Random(case["vseed"])
    base = case["string"]
    k = PLAN[ctx.tier]["k"]
    ctx.evaluations += 1
    n0 = norm(base)
    ctx.mon("c11_idempotence")
    n00 = norm(n0)
    if n00 != n0:
        ctx.violation("trace:idempotence", {"what": "norm(norm(s)) != norm(s)", "s": base[:300], "norm": n0[:300], "norm_norm": n00[:300]}, case)
        return
    c0, e0 = ref_colored(base)
    differs = False
    for j in range(k):
        obs = {}
        s2, applied = GS.respell(base, rng, obs)
        c2, e2 = ref_colored(s2)
        if not iso.isomorphic(c0, e0, c2, e2):
            ctx.hard_inconclusive.append(f"harness respeller changed the meaning of {base[:80]} -> {s2[:80]}")
            continue
        ctx.mon("respeller_validated")
        for a in applied:
            ctx.seen("respell", a)
        differs |= s2 != base
        ctx.evaluations += 1
        n2 = norm(s2)
        ctx.mon("c11_norm_compare")
        if n2 != n0:
            ctx.violation("trace:one-norm-per-molecule", {"what": "two spellings of one molecule normalize to different strings", "s": base[:300], "s_respelled": s2[:300],
                                                           "applied": applied, "norm_s": n0[:300], "norm_respelled": n2[:300]}, case)
            return
        if j == 0:
            ctx.sample({"base": base[:100], "respelled": s2[:100], "applied": applied, "norm": n0[:100]})
    if differs and base.count("(") >= 2:
        ctx.nontrivial(base)
    ctx.count("cov_canonical_base" if case["origin"] == "pipeline" else "cov_hand_style_base")


def run(ctx):
    bridge.import_tucan()
    import tucan.canonicalization as c
    import tucan.serialization as se
    plan = PLAN[ctx.tier]
    rng = ctx.rng
    for k in range(common.share(ctx, plan["canonical"])):
        mol = rng.choice([G.random_organic, G.symmetric, G.multi_component, G.all_elements, G.ring_salts, G.ring_salts, G.mixed_hydrogens, G.deep_refinement])(rng)
        if len(mol.atoms) > 40:
            continue
        if mol.cls == "M12":
            ctx.count("cov_ring_fragments_plus_acyclic_fragment")
        s = se.serialize_molecule(c.canonicalize_molecule(bridge.graph_direct(mol, tag=False)))
        run_case(ctx, {"string": s, "origin": "pipeline", "vseed": f"{ctx.seed}/{ctx.shard}/c{k}"})
    # bond-less molecules (empty tuple section) with several atoms of one element that differ in isotope/radical labels
    for k in range(common.share(ctx, plan["hand"] // 6)):
        items = GS.random_formula(rng, max_symbols=3, max_atoms=12)
        n = sum(c for _, c in items)
        blocks, used = [], set()
        for _ in range(rng.randint(1, 4)):
            i = rng.randint(1, n)
            if i in used:
                continue
            used.add(i)
            props = rng.choice([[("mass", rng.choice([2, 3, 13, 35, 37]))], [("rad", rng.choice([1, 2, 3]))], [("mass", 13), ("rad", 2)]])
            blocks.append((i, props))
        tuples = [] if rng.random() < 0.8 or n < 2 else [(1, 2)]
        run_case(ctx, {"string": GS.emit(items, tuples, blocks), "origin": "hand", "bondless": not tuples, "vseed": f"{ctx.seed}/{ctx.shard}/b{k}"})
        if not tuples:
            ctx.count("cov_bondless_labelled_base")
    for k in range(common.share(ctx, plan["hand"])):
        s = GS.random_sentence(rng, 30)
        if s.startswith("/"):
            continue
        run_case(ctx, {"string": s, "origin": "hand", "vseed": f"{ctx.seed}/{ctx.shard}/h{k}"})


def replay(ctx, w):
    bridge.import_tucan()
    run_case(ctx, w["case"])
