"""C03 - a TUCAN string reconstructs its molecule and is a fixed point of the pipeline.

Deciding monitor: contract on serialize_molecule: the library parser's graph of the returned string must be colour-isomorphic
to the ARGUMENT (independent matcher: exact canonical form n<=8, VF2 otherwise), have the same atom/bond counts, agree with the
reference reader's labelled graph, and re-running the pipeline on it must reproduce the string byte for byte."""
from collections import Counter
import random

from .. import bridge, monitors
from ..oracles.elements import Z
from . import common, molprops

SPEC = {
    "level": "exploration",
    "level_text": "Exploration: a post-condition on serialize_molecule parses every emitted string back with the library parser and compares with the ARGUMENT through an independent matcher, cross-checks the reference reader's labelled graph, and re-runs the pipeline for the fixed point. Evaluated on every serialize call of the workload (graphs in label order, in shuffled order, already canonical).",
    "suite_under_monitor": True,
    "technique": "runtime contract (icontract ensure) on serialize_molecule: parse-back, independent isomorphism matcher, fixed-point re-run",
    "rule": ("cases: M1 n<=4, M2, M3, M4, M5 (formulas whose symbol order differs from atomic-number order, counts 1..12, shared-prefix symbols), M5all "
             "(all 118 elements in one molecule), M7-small up to 3-digit indices, corpus. distinct_nontrivial = distinct emitted strings of molecules with "
             ">=2 elements or >=1 labelled atom"),
    "assumptions": ["isomorphism verdicts: exact canonical form (n<=8) or igraph VF2 on the harness's projection; molecules > 400 atoms skipped (counted)"],
    "monitors_required": ["c03_parse_back", "c03_text_route_parse_back"],
    "required_obs": {"quick": ["cov_text_route_v3000", "cov_text_route_v2000", "cov_input_iteration_order_differs_from_labels", "cov_symbol_order_differs_from_Z_order", "cov_index_ge_100", "cov_block_with_two_differently_labelled_atoms", "cov_corpus", "cov_elements_seen_ge_100"]},
    "watchdog_s": {"quick": 900, "thorough": 3600},
}
PLAN = {
    "quick": {"small_n": 4, "random": {"M2": 1200, "M3": 600, "M4": 300, "M5": 1500, "M5all": 32, "M7s": 200, "M10hiso": 300, "M12rings": 200}, "corpus": True},
    "thorough": {"small_n": 5, "small_sample": 0.1, "random": {"M2": 12000, "M3": 6000, "M4": 3000, "M5": 15000, "M5all": 300, "M7s": 2000, "M10hiso": 3000, "M12rings": 2000}, "corpus": True, "cfi": 6},
}


def run_case(ctx, case):
    return common.case_guard(ctx, case, _run_case)


def _run_case(ctx, case):
    import tucan.canonicalization as c
    import tucan.serialization as s
    g0, mol = molprops.build_case_graph(case)
    ctx.evaluations += 1
    r = c.canonicalize_molecule(g0)
    ok, s0 = molprops.guarded(ctx, case, s.serialize_molecule, r)
    if not ok:
        return
    # the same molecule as a graph whose node iteration order differs from its label order (what nx.relabel_nodes or
    # canonicalize_molecule itself hand on), and the already canonical graph fed in again
    rng = random.Random(case["vseed"])
    for variant in ("relabelled", "canonical-again"):
        g1 = bridge.harness_relabel(g0, rng)[0] if variant == "relabelled" else r
        ctx.evaluations += 1
        ok, s1 = molprops.guarded(ctx, {**case, "variant": variant}, s.serialize_molecule, c.canonicalize_molecule(g1))
        if not ok:
            return
        ctx.count("cov_input_iteration_order_differs_from_labels")
    if mol is not None and len(mol.atoms) <= 60:
        text_route(ctx, case, mol, rng)
    syms = [d["element_symbol"] for _, d in g0.nodes(data=True)]
    elems = sorted(set(syms))
    from ..oracles.elements import hill_order
    ho = hill_order(elems)
    if ho != sorted(elems, key=lambda e: Z[e]):
        ctx.count("cov_symbol_order_differs_from_Z_order")
    if len(syms) >= 100:
        ctx.count("cov_index_ge_100")
    lab = {}
    for _, d in g0.nodes(data=True):
        if d.get("mass") or d.get("rad"):
            lab.setdefault(d["element_symbol"], set()).add((d.get("mass", 0), d.get("rad", 0)))
    if any(len(v) >= 2 for v in lab.values()):
        ctx.count("cov_block_with_two_differently_labelled_atoms")
    for e in elems:
        ctx.seen("elements", e)
    if len(elems) >= 2 or lab:
        ctx.nontrivial(s0)
    molprops.coverage(ctx, case, g0)
    ctx.sample({"class": case.get("cls"), "name": case.get("name"), "atoms": len(syms), "string": s0[:160]})


def text_route(ctx, case, mol, rng):
    """The molecule as a molfile (random legal spelling): the string obtained through the reader must still reconstruct the molecule the file states."""
    import tucan.io.molfile_reader as mr
    import tucan.canonicalization as c
    import tucan.serialization as s
    import tucan.parser.parser as pp
    from ..oracles import ctab, iso
    from .c07 import random_style
    use_v2 = rng.random() < 0.3
    m = mol
    if use_v2:
        m = mol.copy()
        m.bonds = [(i, j, t if 1 <= t <= 8 else 1) for i, j, t in m.bonds]
        use_v2 = ctab.v2000_representable(m)
    if use_v2:
        text = ctab.render_v2000(m, ctab.V2Style(encoding=rng.choice(["lines", "codes", "stale"]), per_line=rng.choice([0, 2, 8]), dt_symbols=True,
                                                 unrelated=rng.choice([0, 0.4])), rng)
    else:
        st = random_style(rng, mol)
        text = ctab.render_v3000(mol, st, rng)
    ctx.evaluations += 1
    out = s.serialize_molecule(c.canonicalize_molecule(mr.graph_from_molfile_text(text)))
    p = pp.graph_from_tucan(out)
    c2, e2 = bridge.colors_edges(p)
    ctx.mon("c03_text_route_parse_back")
    ctx.count("cov_text_route_v2000" if use_v2 else "cov_text_route_v3000")
    if not iso.isomorphic(mol.colors(), mol.edge_pairs(), c2, e2):
        ctx.violation("trace:text-route-parse-back", {"what": "the string obtained from a molfile does not reconstruct the molecule the file states", "string": out[:300],
                                                       "molecule": mol.to_json(), "text": text[:2500]}, {**case, "variant": "text-route"})


def run(ctx):
    plan = PLAN[ctx.tier]
    monitors.install(ctx, {"C03"}, seed=f"{ctx.seed}/{ctx.shard}")
    for case in molprops.cases(ctx, plan):
        run_case(ctx, case)
    if len(ctx.obs.get("elements", {})) >= 100:
        ctx.count("cov_elements_seen_ge_100")


def replay(ctx, w):
    monitors.install(ctx, {"C03"}, seed="replay")
    run_case(ctx, w["case"])
