"""C06 - TUCAN depends only on elements, isotopes, radicals and connectivity.

Paired-rendering trace checker: for one abstract molecule the harness renders a reference molfile and renderings that differ ONLY in
non-identity data (one dimension at a time, and all at once); pipeline(mol_id, rendering_id, varied_dimension) -> string | exception
events of the real reader->canonicalize->serialize pipeline must agree per mol_id."""
import os
import random

from .. import bridge
from ..gen import mols as G
from ..oracles import ctab
from ..oracles.ctab import Mol, V2Style, V3Style
from . import common

DIMENSIONS = ["coordinates", "bond_types", "bond_keywords", "charges", "resonance", "header", "index_values", "atom_keywords", "trailing_blocks", "after_end",
              "line_endings", "v2000_format", "v2000_unrelated_lines", "v2000_charge_encoding", "v2000_after_end", "aamap_counts", "via_file", "all"]

SPEC = {
    "level": "exploration",
    "level_text": 'Exploration: paired renderings of one abstract molecule (17 varied non-identity dimensions incl. V2000 encodings, headers, trailing records, CRLF) through the real reader->canonicalize->serialize path must agree byte for byte with the reference rendering; identity data are held fixed by construction.',
    "technique": "paired-rendering trace checker over real reader->canonicalize->serialize executions (identity data fixed, non-identity data varied by an independent renderer)",
    "rule": ("cases: base molecules (M2, M3, M4, M5, corpus-like sizes) x one rendering per varied dimension: " + ", ".join(DIMENSIONS) +
             ". distinct_nontrivial = distinct (molecule, dimension) pairs whose rendering text differs from the reference rendering"),
    "assumptions": ["headers are printable text (ASCII or UTF-8 letters/symbols, no control or line-separator characters); no trailing blanks after 'M  END' or after a continuation dash (outside the variations the property lists)",
                    "identity data = element, isotope mass, radical, adjacency; held fixed by construction",
                    "'line-ending style' covers LF, CRLF, bare CR and per-line mixes of them (bare CR is rendered by this check only); header line 1 never carries a reserved tag ($$$$, $MDL, $RXN, $RDFILE)"],
    "monitors_required": ["c06_pair_compare"],
    "required_obs": {"quick": ["dimension/" + d for d in DIMENSIONS] + ["cov_corpus_base"]},
    "watchdog_s": {"quick": 900, "thorough": 5400},
}
PLAN = {"quick": {"cases": 1500}, "thorough": {"cases": 20000}}

HEADERS = [["", "", ""], ["benzene - a ring", "  -ISIS-  0927261200", "comment ending with dash-"], ["M  V30 x-", "  prog", "M  END"], ["x" * 79, "y" * 79, "z" * 79],
           ["M  V30 BEGIN CTAB", "M  V30 COUNTS 9 9 0 0 0", "  0  0  0     0  0            999 V2000"], ["record 1 of 2 ($ % &)", "> <x>", "V3000"],
           ["bond lengths in \u00c5", "  r(C\u2013O) = 1.43 \u00c5, T = 100 K", "\u0105\u0445\u03c5 \u2160\u2164 \u6f22\u5b57 \u00e9\u00b5\u00b0"], ["converted from V3000", "", "format: V2000"],
           ["2,2':6',2\"-terpyridine", "  it's \\ a \"name", "5'-O-(4,4'-dimethoxytrityl) `x` $HOME #! %s {0}"]]


def pipeline_text(text, via_file=None):
    import tucan.io.molfile_reader as mr
    import tucan.canonicalization as c
    import tucan.serialization as s
    if via_file:
        with open(via_file, "w", newline="", encoding="utf-8") as f:
            f.write(text)
        try:
            g = mr.graph_from_file(via_file)
        finally:
            os.unlink(via_file)
    else:
        g = mr.graph_from_molfile_text(text)
    return s.serialize_molecule(c.canonicalize_molecule(g))


def vary(mol: Mol, dim: str, rng):
    """Returns (mol', format, style) differing from the reference only in non-identity data."""
    m = mol.copy()
    st3, st2, fmt = V3Style(), None, "v3000"

    def coords():
        mode = rng.choice(["random", "flat", "huge", "tiny", "neg", "same", "int"])
        for a in m.atoms:
            if mode == "random":
                a.x, a.y, a.z = (round(rng.uniform(-99, 99), 4) for _ in range(3))
            elif mode == "flat":
                a.z = 0.0
            elif mode == "huge":
                a.x, a.y = a.x * 1e9, a.y * -1e15
            elif mode == "tiny":
                a.x, a.y, a.z = a.x * 1e-9, a.y * 1e-12, 0.0
            elif mode == "neg":
                a.x, a.y, a.z = -a.x, -a.y, -a.z
            elif mode == "same":
                a.x = a.y = a.z = 0.0
            else:
                a.x, a.y, a.z = float(int(a.x)), float(int(a.y)), float(int(a.z))

    def bond_types():
        m.bonds = [(i, j, rng.choice([1, 2, 3, 4, 5, 6, 7, 8, 9, 10])) for i, j, _ in m.bonds]

    def charges():
        for a in m.atoms:
            a.chg = rng.choice([0, 0, 1, -1, 2, -2, 3, -3, 4, -15, 15])

    if dim == "coordinates":
        coords()
    elif dim == "bond_types":
        bond_types()
    elif dim == "bond_keywords":
        st3.extra_bond_kw = 2.0
    elif dim == "charges":
        charges()
    elif dim == "resonance":
        bond_types(); charges()
    elif dim == "header":
        st3.header = rng.choice(HEADERS)
    elif dim == "index_values":
        n = len(m.atoms)
        st3.index_map = rng.choice([rng.sample(range(1, 5 * n + 10), n), list(range(n, 0, -1)), list(range(1000, 1000 + n)), [7 * k + 3 for k in range(n)]])
        if m.bonds:
            st3.bond_index_map = rng.sample(range(1, 4 * len(m.bonds) + 5), len(m.bonds))
    elif dim == "atom_keywords":
        st3.extra_atom_kw = 2.5
        st3.kw_shuffle = True
    elif dim == "trailing_blocks":
        st3.trailing_blocks = True
    elif dim == "after_end":
        second = Mol([ctab.Atom("N", 1, 0, 15, 1.0, 0.0, 0.0), ctab.Atom("O", -1, 2, 0, 2.0, 0.0, 0.0)], [(0, 1, 2)], "second record")
        st3.after_end = rng.choice(["$$$$", "> <NAME>\nfoo\n\n$$$$", "> <NAME>\nfoo\n\n> <ID>\n7\n\n$$$$",
                                    "$$$$\n" + ctab.render_v3000(second, V3Style(), rng) + "\n$$$$"])
        st3.final_eol = rng.random() < 0.5
    elif dim == "line_endings":
        st3.eol = rng.choice(["\r\n", "\r\n", "\r", "mixed", "mixed-cr"])
        st3.final_eol = rng.random() < 0.5
    elif dim == "aamap_counts":
        st3.aamap = True
        st3.counts_extra = True
        st3.blanks = 4
    elif dim == "via_file":
        st3.header = rng.choice(HEADERS)  # incl. non-ASCII UTF-8 text: the file API decodes bytes
    elif dim in ("v2000_format", "v2000_unrelated_lines", "v2000_charge_encoding", "v2000_after_end"):
        fmt = "v2000"
        m.bonds = [(i, j, t if 1 <= t <= 8 else 1) for i, j, t in m.bonds]  # V2000 bond types are 1..8 (non-identity data)
        for a in m.atoms:  # make it representable without touching identity data
            a.x, a.y, a.z = round(a.x, 4), round(a.y, 4), round(a.z, 4)
        st2 = V2Style(encoding="lines", dt_symbols=rng.random() < 0.5, counts_noise=(dim == "v2000_format"))
        if dim == "v2000_format":
            st2.header = rng.choice(HEADERS)
            st2.eol = rng.choice(["\n", "\r\n", "\r", "mixed", "mixed-cr"])
        if dim == "v2000_unrelated_lines":
            st2.unrelated = 0.7
            st2.atom_lists = 0  # atom lists belong to query atoms (symbol L); only C08, whose quantifier names them, renders them
            st2.stereo_fields = True
        if dim == "v2000_after_end":
            # text after "M  END": SD-file data items, a record separator, or a whole second record with its own property lines
            second = Mol([ctab.Atom("C", 0, 2, 13, 1.0, 0.0, 0.0), ctab.Atom("O", -1, 0, 18, 2.0, 0.0, 0.0)], [(0, 1, 1)], "second record")
            st2.after_end = rng.choice(["$$$$", "> <ID>\n17\n\n$$$$", "$$$$\n" + ctab.render_v2000(second, V2Style(encoding="lines"), rng) + "\n$$$$",
                                        "> <ID>\n17\n\n$$$$\n" + ctab.render_v2000(second, V2Style(encoding="lines"), rng) + "\n$$$$"])
            st2.final_eol = rng.random() < 0.5
        if dim == "v2000_charge_encoding":
            charges()
            st2.encoding = rng.choice(["codes", "lines", "stale", "agree"])
            st2.per_line = rng.randint(1, 8)
            st2.explicit_zero = 0.3
    elif dim == "all":
        coords(); bond_types(); charges()
        n = len(m.atoms)
        st3 = V3Style(index_map=rng.sample(range(1, 5 * n + 10), n), extra_atom_kw=1.5, extra_bond_kw=1.5, kw_shuffle=True, header=rng.choice(HEADERS),
                      trailing_blocks=True, after_end="$$$$", eol=rng.choice(["\n", "\r\n"]), aamap=True, blanks=3, explicit_defaults=0.3,
                      split=rng.choice(["none", "random"]))
    return m, fmt, st3, st2


def run_case(ctx, case):
    return common.case_guard(ctx, case, _run_case)


def _run_case(ctx, case):
    mol = Mol.from_json(case["mol"])
    rng = random.Random(case["vseed"])
    ref_text = ctab.render_v3000(mol, V3Style(), random.Random(0))
    ctx.evaluations += 1
    s_ref = pipeline_text(ref_text)
    dims = case.get("dims") or DIMENSIONS
    for dim in dims:
        m2, fmt, st3, st2 = vary(mol, dim, rng)
        if fmt == "v2000":
            if not ctab.v2000_representable(m2):
                ctx.skip("v2000 not representable")
                continue
            text = ctab.render_v2000(m2, st2, rng)
        else:
            text = ctab.render_v3000(m2, st3, rng)
        ctx.evaluations += 1
        ctx.mon("c06_pair_compare")
        ctx.seen("dimension", dim)
        try:
            s2 = pipeline_text(text, os.path.abspath(f"c06_{ctx.shard}.mol") if dim == "via_file" else None)
        except Exception as e:
            ctx.violation("trace:paired-renderings", {"what": "a rendering that differs only in non-identity data is rejected", "dimension": dim,
                                                       "exception": f"{type(e).__name__}: {e}"[:300], "text": text[:3000]}, {**case, "dims": [dim]})
            continue
        if s2 != s_ref:
            ctx.violation("trace:paired-renderings", {"what": "renderings that differ only in non-identity data get different TUCAN strings", "dimension": dim,
                                                       "s_reference": s_ref[:300], "s_varied": s2[:300], "reference_text": ref_text[:2000], "varied_text": text[:2500]},
                          {**case, "dims": [dim]})
            continue
        if text != ref_text:
            ctx.nontrivial((s_ref, dim, case["vseed"]))
    ctx.sample({"atoms": len(mol.atoms), "string": s_ref[:100], "dimensions": len(dims)}, cap=3)


def gen_mol(rng):
    r = rng.random()
    mol = G.random_organic(rng, 1, 25) if r < 0.55 else G.symmetric(rng) if r < 0.75 else G.multi_component(rng) if r < 0.9 else G.all_elements(rng, 20)
    for a in mol.atoms:
        if a.sym == "H" and rng.random() < 0.3:
            a.mass = rng.choice([2, 3])
        a.mass = min(a.mass, 999)
    return mol


def run(ctx):
    bridge.import_tucan()
    plan = PLAN[ctx.tier]
    rng = ctx.rng
    for k in range(common.share(ctx, plan["cases"])):
        mol = gen_mol(rng)
        run_case(ctx, {"mol": mol.to_json(), "vseed": f"{ctx.seed}/{ctx.shard}/{k}"})


    for path, mol in common.corpus_mols(ctx, every=1 if ctx.tier == "thorough" else 3):
        if len(mol.atoms) <= 120:
            for a in mol.atoms:
                a.mass = min(a.mass, 999)
            run_case(ctx, {"mol": mol.to_json(), "vseed": f"{ctx.seed}/corpus/{mol.name}"})
            ctx.count("cov_corpus_base")


def replay(ctx, w):
    bridge.import_tucan()
    run_case(ctx, w["case"])
