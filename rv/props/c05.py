"""C05 - every emitted string obeys the published grammar and canonical layout.

Deciding monitor: contract on serialize_molecule: the returned string is judged by the harness's own recogniser (written from the
EBNF and Hill's rule) plus the canonical-layout validator, which receives the ARGUMENT graph (element counts, bond count, labelled
atoms, element-pair bond multiset)."""
import random

from .. import bridge, monitors
from ..gen import strings as GS
from ..oracles import ctab
from ..oracles.ctab import Mol
from . import common, molprops

SPEC = {
    "level": "exploration",
    "level_text": "Exploration: every string returned by serialize_molecule in the workload is judged by a recogniser written from the EBNF/Hill's rule and by a layout validator that knows the argument graph. Workload emphasises formulas the corpus lacks (all 118 symbols, with/without C and H, counts >= 10, both attribute keys, reader-supplied explicit zeros, bond-less labelled molecules).",
    "suite_under_monitor": True,
    "technique": "runtime contract (icontract ensure) on serialize_molecule: independent grammar recogniser + canonical-layout validator",
    "rule": ("cases: graphs built directly (M1 n<=4, M2, M3, M4, M5 rare-element formulas, M5all), graphs produced by the molfile readers from V3000/V2000 "
             "texts incl. explicitly written default values (CHG=0/RAD=0/MASS=0, zero-valued M  CHG/RAD/ISO entries), graphs produced by the parser from "
             "non-canonical respellings, corpus. distinct_nontrivial = distinct emitted strings with >=2 element symbols or an attribute section"),
    "assumptions": ["recogniser written from tucan.ebnf; key order inside an attribute block and an empty third section are not constrained by the property and not flagged"],
    "monitors_required": ["c05_validate"],
    "required_obs": {"quick": ["cov_exported_as_molfile_before_serialization", "formula_class/C_and_H", "formula_class/C_without_H", "formula_class/H_without_C", "formula_class/neither", "cov_count_ge_10",
                               "cov_block_with_both_keys", "cov_reader_explicit_zero", "cov_parser_route", "cov_reader_route_v2000", "cov_corpus"]},
    "watchdog_s": {"quick": 900, "thorough": 3600},
}
PLAN = {
    "quick": {"small_n": 4, "random": {"M2": 800, "M3": 300, "M4": 300, "M5": 2500, "M5all": 16}, "corpus": True, "reader": 1500, "parser": 1500},
    "thorough": {"small_n": 5, "small_sample": 0.1, "random": {"M2": 8000, "M3": 3000, "M4": 3000, "M5": 25000, "M5all": 200}, "corpus": True,
                 "reader": 15000, "parser": 15000, "cfi": 4},
}


def observe(ctx, g0, s0):
    from collections import Counter
    cnt = Counter(d["element_symbol"] for _, d in g0.nodes(data=True))
    cls = ("C_and_H" if "C" in cnt and "H" in cnt else "C_without_H" if "C" in cnt else "H_without_C" if "H" in cnt else "neither")
    ctx.seen("formula_class", cls)
    if any(v >= 10 for v in cnt.values()):
        ctx.count("cov_count_ge_10")
    if any(d.get("mass") and d.get("rad") for _, d in g0.nodes(data=True)):
        ctx.count("cov_block_with_both_keys")
    if len(cnt) >= 2 or s0.count("/") == 2:
        ctx.nontrivial(s0)


def run_case(ctx, case):
    return common.case_guard(ctx, case, _run_case)


def _run_case(ctx, case):
    import tucan.canonicalization as c
    import tucan.serialization as s
    g0, mol = molprops.build_case_graph(case)
    if g0.number_of_nodes() == 0:
        return
    ctx.evaluations += 1
    if case.get("export_first"):
        # usage history: the same graph object is exported as a molfile first and identified afterwards
        import tucan.io.molfile_writer as mw
        mw.graph_to_molfile(g0)
        ctx.count("cov_exported_as_molfile_before_serialization")
    r = c.canonicalize_molecule(g0)
    if case.get("export_first") == 2:
        import tucan.io.molfile_writer as mw
        mw.graph_to_molfile(r)
    ok, s0 = molprops.guarded(ctx, case, s.serialize_molecule, r)
    if not ok:
        return
    observe(ctx, g0, s0)
    molprops.coverage(ctx, case, g0)
    if case["kind"] == "tucan":
        ctx.count("cov_parser_route")
    if case.get("route"):
        ctx.count("cov_reader_route_" + case["route"])
    ctx.sample({"class": case.get("cls"), "kind": case["kind"], "atoms": g0.number_of_nodes(), "string": s0[:160]})


def extra_cases(ctx, plan):
    rng = ctx.rng
    # reader route with explicit defaults
    for k in range(common.share(ctx, plan["reader"])):
        from ..gen import mols as G
        mol = G.all_elements(rng, 30) if rng.random() < 0.5 else G.random_organic(rng, 1, 25)
        obs = {}
        if rng.random() < 0.5 or not ctab.v2000_representable(mol):
            txt = ctab.render_v3000(mol, ctab.V3Style(explicit_defaults=0.5, kw_shuffle=True, dt_symbols=rng.random() < 0.5), rng, obs)
            route = "v3000"
        else:
            txt = ctab.render_v2000(mol, ctab.V2Style(encoding=rng.choice(["lines", "codes", "stale"]), explicit_zero=0.4, per_line=rng.randint(1, 8),
                                                       dt_symbols=rng.random() < 0.5), rng, obs)
            route = "v2000"
        if obs.get("explicit_default"):
            ctx.count("cov_reader_explicit_zero")
        yield {"kind": "text", "text": txt, "cls": "reader", "route": route, "name": mol.name, "vseed": 0}
    # parser route: non-canonical spellings
    for k in range(common.share(ctx, plan["parser"])):
        s = GS.random_sentence(rng, 30)
        if s.startswith("/"):
            continue
        yield {"kind": "tucan", "string": s, "cls": "parser", "name": "sentence", "vseed": 0}


def run(ctx):
    plan = PLAN[ctx.tier]
    monitors.install(ctx, {"C05"}, seed=f"{ctx.seed}/{ctx.shard}")
    for case in molprops.cases(ctx, plan):
        case["export_first"] = ctx.rng.choice([0, 0, 0, 0, 0, 0, 1, 2])
        run_case(ctx, case)
    for case in extra_cases(ctx, plan):
        case["export_first"] = ctx.rng.choice([0, 0, 0, 0, 0, 0, 1, 2])
        run_case(ctx, case)


def replay(ctx, w):
    monitors.install(ctx, {"C05"}, seed="replay")
    run_case(ctx, w["case"])
