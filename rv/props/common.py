"""Shared workload plumbing for the molecule-driven properties."""
from __future__ import annotations
import glob
import os
import random

from .. import bridge
from ..bridge import TAG, BTAG
from ..gen import mols as G
from ..oracles import iso
from ..oracles.ctab import Mol, Atom


def share(ctx, total):
    """This shard's share of `total` random cases."""
    base, rem = divmod(total, ctx.nshards)
    return base + (1 if ctx.shard < rem else 0)


def small_exhaustive(ctx, nmax, palettes=(G.PALETTE3,), extra=()):
    """All labelled simple graphs on 1..nmax vertices x all colourings from each palette; `extra` = [(n, palette)] adds further complete
    sub-spaces (e.g. all 32 768 labelled graphs on 6 vertices with one or two colours)."""
    k = 0
    spaces = [(n, pal) for pal in palettes for n in range(1, nmax + 1)] + list(extra)
    for n, pal in spaces:
        for mol in G.all_small(n, pal):
            if ctx.mine(k):
                for i, a in enumerate(mol.atoms):
                    a.tag = i
                    a.x = float(i)
                yield mol
            k += 1


def random_classes(ctx, plan):
    """plan: {'M2': total, 'M3': total, 'M4': total, 'M5': total}"""
    rng = ctx.rng
    for cls, total in plan.items():
        for _ in range(share(ctx, total)):
            if cls == "M2":
                yield G.random_organic(rng, 1, 40)
            elif cls == "M2s":
                yield G.random_organic(rng, 1, 12)
            elif cls == "M3":
                yield G.symmetric(rng)
            elif cls == "M4":
                yield G.multi_component(rng)
            elif cls == "M5":
                yield G.all_elements(rng)
            elif cls == "M5all":
                yield G.every_element(rng, rng.choice([1, 1, 2]))
            elif cls == "M7s":
                fam = rng.choice(["path", "cycle", "ladder", "comb", "caterpillar", "star", "polymer", "peptide", "h2", "isolated", "grid", "bintree"])
                m = G.family(fam, rng.choice([2, 3, 8, 17, 40, 64, 90]))
                if rng.random() < 0.5 and len(m.atoms) > 2:
                    a = m.atoms[rng.randrange(len(m.atoms))]
                    a.mass = 13 if a.sym == "C" else 2
                yield G._unique_coords(m, rng)
            elif cls == "M7long":
                fam = rng.choice(["path", "comb", "ladder", "polymer", "peptide", "caterpillar"])
                m = G.family(fam, rng.choice([150, 200, 260, 330, 400]))
                if rng.random() < 0.5:
                    a = m.atoms[rng.randrange(len(m.atoms))]
                    a.mass = 13 if a.sym == "C" else 2
                yield G._unique_coords(m, rng)
            elif cls == "M9poly":
                yield G.polycyclic(rng)
            elif cls == "M9deep":
                yield G.deep_refinement(rng)
            elif cls == "M10hiso":
                yield G.mixed_hydrogens(rng)
            elif cls == "M11hub":
                yield G.hub(rng)
            elif cls == "M12rings":
                yield G.ring_salts(rng)
            else:
                raise ValueError(cls)


def corpus_files(repo, kind="v3000"):
    sub = "tests/molfiles" if kind == "v3000" else "tests/molfiles_v2000"
    return sorted(glob.glob(os.path.join(repo, sub, "*", "*.mol")))


def corpus_graphs(ctx, kind="v3000", limit=None):
    """Corpus molecules through the real reader, tagged; sharded."""
    import tucan.io.molfile_reader as mr
    files = corpus_files(ctx.repo, kind)
    for k, f in enumerate(files):
        if limit is not None and k >= limit:
            break
        if not ctx.mine(k):
            continue
        g = mr.graph_from_file(f)
        tag_graph(g)
        yield os.path.basename(f), g


def tag_graph(g):
    for v, d in g.nodes(data=True):
        d[TAG] = v
    for u, v, d in g.edges(data=True):
        d[BTAG] = f"{min(u, v)}-{max(u, v)}"
    return g


def cfi_graphs(ctx, max_n=400, limit=6):
    """DIMACS CFI benchmark graphs from the working tree as all-carbon molecules."""
    files = sorted(glob.glob(os.path.join(ctx.repo, "tests/cfi_rigid_benchmark_graphs", "*.col")))
    k = 0
    for f in files:
        lines = [l.split() for l in open(f).read().splitlines()]
        lines = [l for l in lines if l and l[0] in ("p", "e")]
        n = int(lines[0][2])
        if n > max_n:
            continue
        if k >= limit:
            break
        if ctx.mine(k):
            mol = Mol([Atom("C", tag=i, x=float(i)) for i in range(n)], [(int(l[1]) - 1, int(l[2]) - 1, 1) for l in lines[1:]],
                      os.path.basename(f), "M6cfi")
            yield mol
        k += 1


def mol_key(mol):
    """Isomorphism-invariant hash key of an abstract molecule (exact canonical form when small)."""
    c, e = mol.colors(), mol.edge_pairs()
    if len(c) <= 7:
        return ("canon", iso.canon_small(c, e))
    return ("wl", iso.wl_signature(c, e))


def graph_key(g):
    c, e = bridge.colors_edges(g)
    if len(c) <= 7:
        return ("canon", iso.canon_small(c, e))
    return ("wl", iso.wl_signature(c, e))


def classify_mol(ctx, mol_or_graph, colors=None, edges=None):
    """Coverage observables common to the molecule-driven properties."""
    if colors is None:
        colors, edges = (mol_or_graph.colors(), mol_or_graph.edge_pairs()) if isinstance(mol_or_graph, Mol) else bridge.colors_edges(mol_or_graph)
    n = len(colors)
    if n == 0:
        return
    if any(c[1] and c[2] for c in colors):
        ctx.count("cov_isotope_and_radical_on_one_atom")
    if any(c[1] or c[2] for c in colors):
        ctx.count("cov_labelled")
    # components
    parent = list(range(n))

    def find(x):
        while parent[x] != x:
            parent[x] = parent[parent[x]]
            x = parent[x]
        return x
    for a, b in edges:
        parent[find(a)] = find(b)
    if len({find(v) for v in range(n)}) >= 2:
        ctx.count("cov_multi_component")
    ctx.maxi("max_atoms", n)


class StepBudgetExceeded(BaseException):
    pass


_STEP = {"installed": False, "count": 0, "budget": 0, "repo": None}


def _install_step_counter(ctx):
    """Logical step budget (no wall-clock): counts function entries inside the library under monitoring (sys.monitoring PY_START, a few
    per cent overhead); a case that needs more than the budget is cut off by an exception raised from the callback."""
    import sys
    if _STEP["installed"] or not hasattr(sys, "monitoring"):
        return
    mon = sys.monitoring
    try:
        mon.use_tool_id(4, "rv-step-budget")
    except ValueError:
        return
    repo = os.path.realpath(ctx.repo) + os.sep

    in_lib = {}

    def on_start(code, offset):
        ok = in_lib.get(code)
        if ok is None:
            ok = in_lib[code] = os.path.realpath(code.co_filename).startswith(repo)
        if not ok:
            return mon.DISABLE
        _STEP["count"] += 1
        if _STEP["budget"] and _STEP["count"] > _STEP["budget"]:
            _STEP["budget"] = 0  # fire once
            raise StepBudgetExceeded()
        return None
    mon.register_callback(4, mon.events.PY_START, on_start)
    mon.set_events(4, mon.events.PY_START)
    _STEP["installed"] = True


STEP_BUDGET = 50_000_000  # library function entries per case: >= 50x what the largest case of any tier needs (quick < 10^5, thorough < 10^6), so that a
# refactoring which multiplies the number of helper calls is never cut off; an endless loop still is, after some tens of seconds


def case_guard(ctx, case, fn, *args):
    """Run one case. An exception raised INSIDE the library under monitoring on an in-domain input is an observed failure of the
    monitored operation (recorded as a violation with the traceback); an exception from the harness itself propagates (-> inconclusive)."""
    import os
    import traceback
    from ..core import MonitorViolation
    _install_step_counter(ctx)
    _STEP["count"], _STEP["budget"] = 0, STEP_BUDGET
    try:
        return fn(ctx, case, *args)
    except StepBudgetExceeded:
        ctx.violation("driver:step-budget", {"what": f"the monitored operations of this case did not return within {STEP_BUDGET} library function calls (logical step budget; "
                                                     "a case of this size needs well under a million)"}, case)
        ctx.count("step_budget_exceeded")
        if ctx.obs["step_budget_exceeded"] >= 5:
            raise RuntimeError("shard stopped after five cases exceeded the logical step budget (recorded as violations)")
    except MonitorViolation as v:
        ctx.violation(v.monitor, v.witness, case, v.prop)
    except Exception as e:  # noqa
        tb = traceback.extract_tb(e.__traceback__)
        repo = os.path.realpath(ctx.repo) + os.sep
        innermost = tb[-1].filename if tb else ""
        lib = [f for f in tb if os.path.realpath(f.filename).startswith(repo)]
        harness_last = innermost.startswith(os.path.dirname(os.path.dirname(os.path.abspath(__file__))))
        if not lib or (harness_last and not isinstance(e, (RecursionError,))):
            raise
        ctx.violation("driver:library-exception", {"what": f"the monitored operation raised {type(e).__name__} on an in-domain input", "message": str(e)[:300],
                                                    "frames": [f"{f.name}@{os.path.basename(f.filename)}:{f.lineno}" for f in tb[-8:]]}, case)
    finally:
        ctx.maxi("max_library_calls_in_one_case", _STEP["count"])
        _STEP["budget"] = 0
    return None


def corpus_mols(ctx, every=1):
    """Corpus molfiles as ABSTRACT molecules, read by the harness's own minimal V3000 reader (files beyond the plain subset are skipped and counted)."""
    from ..oracles import ctab
    for k, f in enumerate(corpus_files(ctx.repo)):
        if not ctx.mine(k) or k % every:
            continue
        mol = ctab.parse_plain_v3000(open(f).read())
        if mol is None:
            ctx.skip("corpus file beyond the harness reader's plain subset")
            continue
        mol.name = os.path.basename(f)
        yield f, mol
