"""C09 - written molfiles read back as the same molecule, at any line length.

Deciding monitor: contract on graph_to_molfile: every physical line <= 79 characters (+ newline = 80), V3000 frame well formed, and reading
the text back through the real reader gives the same atoms in the same order (element, charge, radical, mass, coordinates to six decimals)
and the same bonds with types. The driver targets line lengths around the 72-character wrap and runs the cycle string->graph->molfile->graph->string."""
import random

from .. import bridge, monitors
from ..core import MonitorViolation
from ..gen import mols as G
from ..oracles.ctab import Mol
from . import common, molprops

SPEC = {
    "level": "exploration",
    "level_text": 'Exploration: post-condition on graph_to_molfile (line length, frame, read-back through the real reader position by position) driven by inputs engineered to put the 72-character wrap at every relevant character class and at 1-4 wraps per line; plus the string->graph->molfile->graph->string cycle.',
    "suite_under_monitor": True,
    "technique": "runtime contract (icontract ensure) on graph_to_molfile: line-length/frame post-condition + read-back through the real reader compared position by position; length-targeted inputs",
    "rule": ("cases: graphs with attributes in the format's ranges whose atom lines are engineered to logical lengths 66..80, 137..150, 208..220 (index width, coordinate magnitudes up to 1e60, "
             "negative signs, CHG/RAD/MASS present or not) so that the wrap falls inside a number, after a minus sign, inside a keyword, directly before/after a blank; wide bond lines "
             "(labels up to 1e30); 0-bond molecules; non-consecutive unsorted labels; parser-made graphs (no coordinates, no bond types); corpus; plus the cycle string->graph->molfile->graph->string. "
             "distinct_nontrivial = distinct written texts containing at least one wrapped line"),
    "assumptions": ["node labels are non-negative integers (the writer prints label+1)", "attributes outside the format's ranges are outside the property's domain and not generated",
                    "a coordinate key that is absent from an atom means 0 for that coordinate (as for graphs from TUCAN strings, which carry none; 2-D layouts carry x and y only)"],
    "monitors_required": ["c09_writer", "c09_cycle"],
    "required_obs": {"quick": ["cov_coordinates_near_output_precision", "logical_line_len/70", "logical_line_len/71", "logical_line_len/72", "logical_line_len/73", "logical_line_len/74", "logical_line_len/75",
                               "logical_line_len/142", "logical_line_len/143", "logical_line_len/144", "logical_line_len/213", "logical_line_len/214", "logical_line_len/215",
                               "wraps_per_logical_line/0", "wraps_per_logical_line/1", "wraps_per_logical_line/2", "wraps_per_logical_line/3",
                               "cov_zero_bonds", "cov_parser_made", "cov_corpus", "cov_wide_bond_line", "cov_wrapped_bond_line_by_construction", "wrapped_bond_lines", "cov_mixed_zero_and_nonzero_coordinates", "cov_partial_coordinate_keys"]},
    "watchdog_s": {"quick": 900, "thorough": 5400},
}
PLAN = {"quick": {"targeted": 5000, "random": 1500, "cycle": 600}, "thorough": {"targeted": 60000, "random": 15000, "cycle": 6000}}
TARGETS = list(range(66, 81)) + list(range(137, 151)) + list(range(208, 221)) + [283, 284, 285, 286]


def coord_with_digits(d, neg, rng):
    """a float whose '%.6f' rendering has exactly d integer digits"""
    if d <= 0:
        v = rng.choice([0.0, 0.5, 1e-7, 0.123456])
    else:
        v = float(rng.choice(["1", "9", "15", "12345"])[:1] + "".join(rng.choice("0123456789") for _ in range(d - 1))) if d < 16 else rng.choice([1.5, 9.99, 1.0]) * 10.0 ** (d - 1)
        if len(f"{v:.6f}") - 7 != d:
            v = 1.5 * 10.0 ** (d - 1)
    return -v if neg else v


CAL = {"dec": 6}


def calibrate():
    """Observe how many decimals the writer under monitoring prints (the length targeting must follow the implementation, not assume it)."""
    import networkx as nx
    import tucan.io.molfile_writer as mw
    g = nx.Graph()
    g.add_node(0, element_symbol="C", atomic_number=6, partition=0, x_coord=1.5, y_coord=0.0, z_coord=0.0)
    orig = monitors.S.orig.get("graph_to_molfile", mw.graph_to_molfile)
    try:
        line = next(l for l in orig(g).split("\n") if l.startswith("M  V30 1 C "))
        tok = line.split()[4]
        CAL["dec"] = len(tok.split(".")[1]) if "." in tok else 0
    except Exception:
        pass
    return CAL["dec"]


def targeted_graph(rng, target):
    """One molecule whose first atom line has logical length `target` (others random near the wrap)."""
    import networkx as nx
    n = rng.randint(1, 6)
    mol = G.random_organic(rng, n, n)
    labels = {}
    width = rng.choice([1, 1, 2, 3, 6, 9])
    used = set()
    for k in range(len(mol.atoms)):
        while True:
            lab = rng.randrange(10 ** (width - 1), 10 ** width) - 1 if width > 1 else rng.randrange(0, 9)
            if lab not in used:
                used.add(lab)
                break
        labels[k] = lab
    for k, a in enumerate(mol.atoms):
        a.chg = rng.choice([0, 0, 1, -1, 15, -15, 7])
        a.rad = rng.choice([0, 0, 1, 2, 3])
        a.mass = rng.choice([0, 0, 1, 13, 238, 1000])
        t = target if k == 0 else rng.choice(TARGETS)
        tail = (f" CHG={a.chg}" if a.chg else "") + (f" RAD={a.rad}" if a.rad else "") + (f" MASS={a.mass}" if a.mass else "")
        fixed = len(f"{labels[k] + 1} {a.sym} ") + len(" 0") + len(tail) + 2  # two blanks between the three coordinates
        negs = [rng.random() < 0.4 for _ in range(3)]
        room = t - fixed - 3 * (CAL["dec"] + 1) - sum(negs)  # integer digits to distribute
        if room < 3:
            negs = [False] * 3
            room = max(3, t - fixed - 3 * (CAL["dec"] + 1))
        d1 = rng.randint(1, max(1, room - 2))
        d2 = rng.randint(1, max(1, room - d1 - 1))
        d3 = max(1, room - d1 - d2)
        a.x, a.y, a.z = coord_with_digits(d1, negs[0], rng), coord_with_digits(d2, negs[1], rng), coord_with_digits(d3, negs[2], rng)
    g = bridge.graph_direct(mol)
    order = list(g.nodes)
    rng.shuffle(order)
    out = nx.Graph()
    for v in order:
        out.add_node(labels[v], **dict(g.nodes[v]))
    es = list(g.edges(data=True))
    rng.shuffle(es)
    for u, v, d in es:
        out.add_edge(labels[u], labels[v], **d)
    return out


def write(ctx, g, case):
    import tucan.io.molfile_writer as mw
    ctx.evaluations += 1
    try:
        text = mw.graph_to_molfile(g)
    except MonitorViolation as v:
        ctx.violation(v.monitor, v.witness, case, v.prop)
        return None
    except Exception as e:  # the writer raised on an in-domain graph
        ctx.violation("driver:library-exception", {"what": f"graph_to_molfile raised {type(e).__name__} on an in-domain graph", "message": str(e)[:300]}, case)
        return None
    if any(len(l) == 79 and l.endswith("-") for l in text.split("\n")):
        ctx.nontrivial(text.split("\n", 4)[4])
    if g.number_of_edges() == 0:
        ctx.count("cov_zero_bonds")
    return text


def graph_to_case(g):
    return {"nodes": [[v, {k: x for k, x in d.items() if k != "invariant_code"}] for v, d in g.nodes(data=True)], "edges": [[u, v, d] for u, v, d in g.edges(data=True)]}


def graph_from_case(c):
    import networkx as nx
    g = nx.Graph()
    for v, d in c["nodes"]:
        g.add_node(v, **d)
    for u, v, d in c["edges"]:
        g.add_edge(u, v, **d)
    return g


def run(ctx):
    import networkx as nx
    import tucan.parser.parser as pp
    import tucan.canonicalization as c
    import tucan.serialization as se
    import tucan.io.molfile_reader as mr
    import tucan.io.molfile_writer as mw
    plan = PLAN[ctx.tier]
    monitors.install(ctx, {"C09"}, seed=f"{ctx.seed}/{ctx.shard}")
    rng = ctx.rng
    ctx.obs["writer_decimals_observed"] = [calibrate()]
    for k in range(common.share(ctx, plan["targeted"])):
        g = targeted_graph(rng, TARGETS[k % len(TARGETS)])
        t = write(ctx, g, {"graph": graph_to_case(g)})
        if t and k < 2:
            ctx.sample({"written": t[:900]}, cap=2)
    for k in range(common.share(ctx, plan["random"])):
        mol = rng.choice([G.random_organic, G.symmetric, G.multi_component, G.all_elements])(rng)
        for a in mol.atoms:
            a.mass = a.mass if a.mass > 0 else 0
        if rng.random() < 0.4:
            # some atoms exactly in a coordinate plane / at the origin, others not (idealised geometries)
            for a in mol.atoms:
                if rng.random() < 0.4:
                    a.z = 0.0
                if rng.random() < 0.2:
                    a.x = 0.0
                if rng.random() < 0.2:
                    a.y = -0.0
            ctx.count("cov_mixed_zero_and_nonzero_coordinates")
        if rng.random() < 0.3:
            # magnitudes around the output precision (geometry-optimiser noise): just below / above half a unit and one unit of the sixth decimal
            for a in mol.atoms:
                for key in ("x", "y", "z"):
                    if rng.random() < 0.4:
                        v = rng.choice([rng.uniform(1e-8, 4.9e-7), rng.uniform(5.1e-7, 9.9e-7), rng.uniform(1e-6, 3e-6), 7.5e-7, 6.2e-7, 9.4e-7,
                                        round(rng.uniform(-50, 50), 5) + rng.choice([4e-7, 6e-7, -4e-7, -6e-7])])
                        setattr(a, key, -v if rng.random() < 0.5 else v)
            ctx.count("cov_coordinates_near_output_precision")
        g = bridge.graph_direct(mol)
        if rng.random() < 0.25:
            # flat drawings / partial positions: some coordinate KEYS are simply absent on some atoms (the writer's default is 0 per coordinate)
            for v, d in g.nodes(data=True):
                for key in ("z_coord", "y_coord", "x_coord"):
                    if rng.random() < (0.7 if key == "z_coord" else 0.15):
                        d.pop(key, None)
            ctx.count("cov_partial_coordinate_keys")
        if rng.random() < 0.4 and g.number_of_edges():
            # labels wide enough that BOND lines exceed 72 characters and wrap (one or two times), targeted around the wrap boundary
            w = rng.choice([20, 30, 32, 33, 34, 35, 36, 40, 66, 68, 70, 72])
            big = {v: rng.randrange(10 ** (w - 1), 10 ** w) for v in g.nodes}
            g = nx.relabel_nodes(g, big, copy=True)
            ctx.count("cov_wide_bond_line")
            if 2 * w + 6 > 72:
                ctx.count("cov_wrapped_bond_line_by_construction")
        write(ctx, g, {"graph": graph_to_case(g)})
    for name, g in common.corpus_graphs(ctx):
        write(ctx, g, {"graph": graph_to_case(g)})
        ctx.count("cov_corpus")
    # cycle string -> graph -> molfile -> graph -> string
    for k in range(common.share(ctx, plan["cycle"])):
        mol = rng.choice([G.random_organic, G.symmetric, G.all_elements])(rng)
        s0 = se.serialize_molecule(c.canonicalize_molecule(bridge.graph_direct(mol, tag=False)))
        g = pp.graph_from_tucan(s0)
        ctx.count("cov_parser_made")
        text = write(ctx, g, {"graph": graph_to_case(g), "cycle": s0})
        if text is None:
            continue
        s1 = se.serialize_molecule(c.canonicalize_molecule(mr.graph_from_molfile_text(text)))
        ctx.mon("c09_cycle")
        if s1 != s0:
            ctx.violation("trace:cycle", {"what": "string -> graph -> molfile -> graph -> string does not return the original string", "s0": s0[:300], "s1": s1[:300], "text": text[:2000]},
                          {"graph": graph_to_case(g), "cycle": s0})


def replay(ctx, w):
    import tucan.canonicalization as c
    import tucan.serialization as se
    import tucan.io.molfile_reader as mr
    monitors.install(ctx, {"C09"}, seed="replay")
    g = graph_from_case(w["case"]["graph"])
    text = write(ctx, g, w["case"])
    if text and w["case"].get("cycle"):
        s1 = se.serialize_molecule(c.canonicalize_molecule(mr.graph_from_molfile_text(text)))
        if s1 != w["case"]["cycle"]:
            ctx.violation("trace:cycle", {"what": "cycle does not return the original string", "s1": s1[:300]}, w["case"])
