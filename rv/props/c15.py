"""C15 - the pipeline completes for every non-empty molecule regardless of size/shape.

Completion monitor (wrapper recording exception type and deepest frames of the REAL call at the DEFAULT recursion limit) plus a
stack-depth monitor (sys.setprofile, max Python frame depth inside the call) that steers the size sweep: if depth grows with n the
harness extrapolates the size n* where the default limit would be reached and drives the real call there. Only a real failure is a verdict."""
import os
import resource
import sys
import time
import traceback

from .. import bridge
from ..gen import mols as G
from . import common

JOBS = {
    "quick": [("path", 2100), ("ladder", 1200), ("comb", 2000), ("polymer", 1500), ("peptide", 1500), ("cycle", 5000), ("h2", 4000), ("isolated", 4000),
              ("complete", 80), ("single", 1), ("caterpillar", 1500), ("cycle13c", 3000), ("star", 3000), ("grid", 900), ("bintree", 2047), ("steer", 0), ("steer-memory", 0), ("small-sweep", 0)],
    "thorough": [("path", 6000), ("path", 3500), ("ladder", 4000), ("comb", 6000), ("polymer", 6000), ("peptide", 5000), ("cycle", 10000), ("h2", 10000), ("isolated", 10000),
                 ("complete", 150), ("single", 1), ("caterpillar", 6000), ("cycle13c", 8000), ("star", 10000), ("grid", 2500), ("bintree", 8191), ("steer", 0), ("steer-memory", 0), ("small-sweep", 0)],
}
SPEC = {
    "level": "exploration",
    "dead_worker_is_violation": True,
    "level_text": 'Exploration: completion monitor on the real calls at the default recursion limit for 14 size families up to 5 000 (quick) / 10 000 (thorough) atoms, a sweep of every family at every size 1..40, and a stack-depth monitor that would steer to the critical size if depth grew with n. A watchdog firing is inconclusive, never a violation.',
    "technique": "completion monitor on canonicalize/serialize/parse for size families, steered by a sys.setprofile stack-depth monitor; verdict only from a real exception at the default recursion limit",
    "rule": ("cases: one subprocess per (family, size): paths, ladders, combs, caterpillars, polymers -[CH2-CHCl]-, peptide-like backbones, cycles, n x H2, n isolated atoms of all elements, "
             "K_n, stars, grids, binary trees, a single atom; each molecule goes parse(formula+tuples) -> canonicalize -> serialize -> parse(output) and also direct graph -> canonicalize -> serialize; "
             "a steering job measures frame depth at n=64..512 per family and drives the extrapolated critical size; a sweep job runs every family at every size 1..40. "
             "distinct_nontrivial = distinct (family, size) pairs completed with >= 3 atoms"),
    "assumptions": ["default recursion limit of the interpreter (not lowered)", "a per-process memory budget of 4 GiB for molecules within the tier's size bound (only enforced when the RSS monitor projects that it would be exceeded)", "sizes bounded by the tier (quick <= 5000 atoms, thorough <= 10000); a watchdog firing is inconclusive, not a violation"],
    "shards": {"quick": len(JOBS["quick"]), "thorough": len(JOBS["thorough"])},
    "monitors_required": ["c15_completion", "c15_depth_monitor", "c15_rss_monitor"],
    "required_obs": {"quick": ["cov_collection_line_with_hundreds_of_continuations", "cov_depth_linear_family_ge_2000_atoms", "cov_components_ge_1000", "cov_atoms_ge_4000", "cov_complete_graph", "cov_single_atom", "cov_steering_families", "cov_molfile_route_v2000", "cov_molfile_route_v3000", "cov_molfile_route_full_width_coordinate_fields"]},
    "watchdog_s": {"quick": 1500, "thorough": 7200},
}


def tucan_string_of(mol):
    """Formula + tuples spelled by the harness (valid, not canonical) so that the parser is exercised on the large input as well."""
    from ..oracles.elements import Z, hill_order
    from collections import Counter
    cnt = Counter(a.sym for a in mol.atoms)
    order = sorted(range(len(mol.atoms)), key=lambda k: Z[mol.atoms[k].sym])  # stable
    newidx = {old: k + 1 for k, old in enumerate(order)}
    formula = "".join(s + (str(cnt[s]) if cnt[s] > 1 else "") for s in hill_order(cnt))
    return formula + "/" + "".join(f"({newidx[i]}-{newidx[j]})" for i, j, _ in mol.bonds)


class Depth:
    def __init__(self):
        self.base = None
        self.max = 0

    def __enter__(self):
        self.base = len(traceback.extract_stack())
        self.cur = self.base
        def prof(frame, event, arg):
            if event == "call":
                self.cur += 1
                if self.cur > self.max:
                    self.max = self.cur
            elif event == "return":
                self.cur -= 1
        sys.setprofile(prof)
        return self

    def __exit__(self, *a):
        sys.setprofile(None)

    @property
    def depth(self):
        return self.max - self.base


def run_pipeline(ctx, mol, label, measure_depth=False):
    """Returns dict(ok, stage, exception, depth, rounds)."""
    import tucan.canonicalization as c
    import tucan.serialization as s
    import tucan.parser.parser as pp
    out = {"ok": True, "label": label, "atoms": len(mol.atoms)}
    stage = "parse-input"
    rounds = [0]
    orig_part = getattr(c, "partition_molecule_by_attribute", None)  # internal name: diagnostic only, may not exist after a refactoring

    def counting(*a, **k):
        rounds[0] += 1
        return orig_part(*a, **k)
    if orig_part is not None:
        c.partition_molecule_by_attribute = counting  # no verdict and no required coverage observable depends on it
    d = Depth() if measure_depth else None
    t0 = time.time()
    try:
        if d:
            d.__enter__()
        g = pp.graph_from_tucan(tucan_string_of(mol))
        stage = "canonicalize"
        r = c.canonicalize_molecule(g)
        stage = "serialize"
        text = s.serialize_molecule(r)
        stage = "parse-output"
        g2 = pp.graph_from_tucan(text)
        if g2.number_of_nodes() != len(mol.atoms) or g2.number_of_edges() != len(mol.bonds):
            out["note"] = "parse(output) has a different size than the input (C03's business, not a completion failure)"
        stage = "direct-graph"
        if len(mol.atoms) <= 3000:
            text2 = s.serialize_molecule(c.canonicalize_molecule(bridge.graph_direct(mol, tag=False)))
            if text2 != text:
                out["note"] = "direct graph and parsed graph gave different strings (C01 side)"
    except BaseException as e:
        out.update(ok=False, stage=stage, exception=type(e).__name__, message=str(e)[:200],
                   frames=[f"{f.name}@{f.filename.split('/')[-1]}:{f.lineno}" for f in traceback.extract_tb(e.__traceback__)[-6:]])
    finally:
        if d:
            d.__exit__()
            out["depth"] = d.depth
        if orig_part is not None:
            c.partition_molecule_by_attribute = orig_part
    out["rounds"] = rounds[0]
    out["wall_s"] = round(time.time() - t0, 2)
    ctx.evaluations += 1
    ctx.mon("c15_completion")
    return out


def record(ctx, res, fam, n):
    ctx.obs.setdefault("runs", []).append({k: res.get(k) for k in ("label", "atoms", "ok", "rounds", "wall_s", "depth", "exception", "stage")})
    if not res["ok"]:
        ctx.violation("completion", {"what": f"pipeline ended in {res['exception']} during {res['stage']}", "family": fam, "atoms": res["atoms"], "message": res.get("message"),
                                     "deepest_frames": res.get("frames")}, {"family": fam, "n": n})
        return
    if res["atoms"] >= 3:
        ctx.nontrivial((fam, res["atoms"]))
    if res["rounds"] >= 1000:
        ctx.count("cov_refinement_rounds_ge_1000")
    if fam in ("path", "comb", "cycle13c") and res["atoms"] >= 2000:
        ctx.count("cov_depth_linear_family_ge_2000_atoms")  # by construction these need >= 1000 refinement rounds
    ctx.maxi("max_refinement_rounds", res["rounds"])
    ctx.maxi("max_atoms", res["atoms"])
    if res["atoms"] >= 4000:
        ctx.count("cov_atoms_ge_4000")
    if fam in ("h2", "isolated") and res["atoms"] >= 2000:
        ctx.count("cov_components_ge_1000")
    if fam == "complete":
        ctx.count("cov_complete_graph")
    if fam == "single":
        ctx.count("cov_single_atom")


def steer(ctx, nmax):
    """Depth monitor: depth(n) per family at small sizes; drive the extrapolated critical size for depth-linear families."""
    limit = sys.getrecursionlimit()
    run_pipeline(ctx, G.family("path", 32), "warm-up")  # fill the ANTLR prediction cache: its cold first parse is deep
    for fam in ("path", "comb", "ladder", "polymer", "peptide", "caterpillar", "cycle", "cycle13c", "bintree", "star"):
        table = []
        for n in (64, 128, 256, 512):
            res = run_pipeline(ctx, G.family(fam, n), f"{fam}{n}", measure_depth=True)
            ctx.mon("c15_depth_monitor")
            if not res["ok"]:
                record(ctx, res, fam, n)
                break
            table.append((res["atoms"], res["depth"]))
        ctx.obs.setdefault("depth_tables", {})[fam] = table
        ctx.count("cov_steering_families")
        if len(table) == 4:
            (n1, d1), (n2, d2) = table[1], table[3]
            slope = (d2 - d1) / max(1, (n2 - n1))
            if slope > 0.01:
                nstar = int((limit - d2) / slope + n2)
                target = min(int(1.1 * nstar), nmax)
                ctx.obs.setdefault("steered", {})[fam] = {"slope_frames_per_atom": round(slope, 3), "n_star": nstar, "driven": target}
                res = run_pipeline(ctx, G.family(fam, target), f"{fam}{target}(steered)")
                record(ctx, res, fam, target)
            else:
                ctx.obs.setdefault("steered", {})[fam] = {"slope_frames_per_atom": round(slope, 4), "flat": True}


def molfile_route(ctx):
    """The pipeline fed from molfile text: chains/ladders/polymers of 120-999 atoms drawn in 'pixel' units, so that V2000 coordinate fields are full width."""
    import tucan.io.molfile_reader as mr
    import tucan.canonicalization as c
    import tucan.serialization as s
    from ..oracles import ctab
    import random as _r
    for fam, n, scale in (("path", 120, 30.0), ("polymer", 400, 25.0), ("ladder", 998, 12.5), ("peptide", 600, -20.0), ("comb", 300, 1.5)):
        mol = G.family(fam, n)
        for k, a in enumerate(mol.atoms):
            a.x, a.y, a.z = round(k * scale, 4), round(-k * scale * 0.5, 4), round((k % 7) * scale, 4)
        for fmt in ("v2000", "v3000"):
            if fmt == "v2000" and not ctab.v2000_representable(mol):
                ctx.skip("molfile route: not representable as V2000")
                continue
            text = ctab.render_v2000(mol, ctab.V2Style(), _r.Random(0)) if fmt == "v2000" else ctab.render_v3000(mol, ctab.V3Style(), _r.Random(0))
            ctx.evaluations += 1
            ctx.mon("c15_completion")
            try:
                out = s.serialize_molecule(c.canonicalize_molecule(mr.graph_from_molfile_text(text)))
                ctx.count("cov_molfile_route_" + fmt)
                if any(len(f"{v:.4f}") >= 10 for a in mol.atoms for v in (a.y, a.z)) and fmt == "v2000":
                    ctx.count("cov_molfile_route_full_width_coordinate_fields")
            except BaseException as e:
                ctx.violation("completion", {"what": f"pipeline from {fmt} text ended in {type(e).__name__}", "family": fam, "atoms": len(mol.atoms), "message": str(e)[:200],
                                             "deepest_frames": [f"{f.name}@{f.filename.split('/')[-1]}:{f.lineno}" for f in traceback.extract_tb(e.__traceback__)[-5:]],
                                             "text_head": text[:600]}, {"family": fam, "n": n, "route": fmt})


def collection_route(ctx):
    """Files whose size-dependent part is ONE logical line: a highlight collection listing every atom and bond of a large molecule, continued over
    hundreds of physical lines (the number of continuation lines of one logical line grows with the molecule, not with any atom or bond line)."""
    import tucan.io.molfile_reader as mr
    import tucan.canonicalization as c
    import tucan.serialization as s
    from ..oracles import ctab
    import random as _r
    for n, full in ((60, True), (1200, False), (4500, False)):
        mol = G.family("polymer", n)
        base = ctab.render_v3000(mol, ctab.V3Style(), _r.Random(0))
        na, nb = len(mol.atoms), len(mol.bonds)
        content = "MDLV30/HILITE ATOMS=(%d %s) BONDS=(%d %s)" % (na, " ".join(str(i) for i in range(1, na + 1)), nb, " ".join(str(i) for i in range(1, nb + 1)))
        pieces = [content[k:k + 71] for k in range(0, len(content), 71)]
        block = ["M  V30 BEGIN COLLECTION"] + ["M  V30 " + p + ("-" if k < len(pieces) - 1 else "") for k, p in enumerate(pieces)] + ["M  V30 END COLLECTION"]
        text = base.replace("M  V30 END CTAB", "\n".join(block) + "\nM  V30 END CTAB")
        assert text != base
        ctx.evaluations += 1
        ctx.mon("c15_completion")
        try:
            g = mr.graph_from_molfile_text(text)
            if g.number_of_nodes() != na or g.number_of_edges() != nb:
                raise AssertionError(f"read {g.number_of_nodes()} atoms / {g.number_of_edges()} bonds, file states {na} / {nb}")
            if full and s.serialize_molecule(c.canonicalize_molecule(g)) != s.serialize_molecule(c.canonicalize_molecule(mr.graph_from_molfile_text(base))):
                raise AssertionError("TUCAN string differs with / without the collection block")
            ctx.maxi("max_continuation_lines_of_one_logical_line", len(pieces) - 1)
            ctx.count("cov_collection_line_with_hundreds_of_continuations")
        except BaseException as e:
            ctx.violation("completion", {"what": f"reading a V3000 file whose collection line spans {len(pieces)} physical lines ended in {type(e).__name__}", "atoms": na, "message": str(e)[:200],
                                         "deepest_frames": [f"{f.name}@{f.filename.split('/')[-1]}:{f.lineno}" for f in traceback.extract_tb(e.__traceback__)[-5:]]},
                          {"family": "polymer", "n": n, "route": "collection"})


MEMORY_BUDGET_MB = 4096  # stated resource ceiling per process for molecules within the tier's size bound


def steer_memory(ctx, nmax):
    """Peak-RSS monitor: resident memory after n = 400, 800, 1600 for depth-linear families. If memory grows super-linearly and the projection
    for the tier's largest size exceeds the stated per-process budget, the real call is driven at the projected critical size under that
    address-space ceiling; only a real MemoryError there is a verdict."""
    import json as _json
    import math
    import subprocess
    base = resource.getrusage(resource.RUSAGE_SELF).ru_maxrss // 1024
    for fam in ("path", "comb"):
        incs = []
        for n in (400, 800, 1600):
            res = run_pipeline(ctx, G.family(fam, n), f"{fam}{n}(rss)")
            ctx.mon("c15_rss_monitor")
            if not res["ok"]:
                record(ctx, res, fam, n)
                return
            incs.append(max(1, resource.getrusage(resource.RUSAGE_SELF).ru_maxrss // 1024 - base))
        exponent = math.log2(max(incs[2], 1) / max(incs[1], 1))
        info = {"rss_increment_mb": incs, "growth_exponent": round(exponent, 2)}
        if incs[2] > 200 and exponent > 1.5:
            n_crit = int(1600 * (MEMORY_BUDGET_MB / incs[2]) ** (1 / exponent) * 1.3)
            info["projected_critical_size"] = n_crit
            if n_crit <= nmax:
                p = subprocess.run(["/venv/bin/python", os.path.join(os.path.dirname(os.path.dirname(os.path.abspath(__file__))), "c15_child.py"), ctx.repo, fam, str(n_crit),
                                    str(MEMORY_BUDGET_MB + base)], capture_output=True, text=True, timeout=3000)
                try:
                    r = _json.loads(p.stdout.strip().splitlines()[-1])
                except Exception:
                    r = {"ok": False, "exception": f"child died rc={p.returncode}", "stage": "?", "frames": [p.stderr[-300:]]}
                info["driven"] = {"n": n_crit, **r}
                ctx.evaluations += 1
                if not r["ok"]:
                    ctx.violation("completion:memory", {"what": f"pipeline ended in {r['exception']} during {r['stage']} within a {MEMORY_BUDGET_MB} MiB address-space budget",
                                                        "family": fam, "atoms": n_crit, "rss_increments_mb_at_400_800_1600": incs, "growth_exponent": round(exponent, 2),
                                                        "deepest_frames": r.get("frames")}, {"family": fam, "n": n_crit, "memory": True})
        ctx.obs.setdefault("memory_steering", {})[fam] = info
        base = resource.getrusage(resource.RUSAGE_SELF).ru_maxrss // 1024


def small_sweep(ctx):
    for fam in ("path", "cycle", "cycle13c", "ladder", "comb", "caterpillar", "star", "polymer", "peptide", "h2", "isolated", "complete", "grid", "bintree"):
        for n in range(1, 41):
            if fam == "complete" and n > 20:
                continue
            mol = G.family(fam, n)
            if not mol.atoms:
                continue
            res = run_pipeline(ctx, mol, f"{fam}{n}")
            if not res["ok"]:
                record(ctx, res, fam, n)
            elif res["atoms"] >= 3:
                ctx.nontrivial((fam, res["atoms"]))
    ctx.obs["small_sweep_done"] = 1
    molfile_route(ctx)
    collection_route(ctx)


def run(ctx):
    bridge.import_tucan()
    fam, n = JOBS[ctx.tier][ctx.shard]
    if fam == "steer":
        steer(ctx, 2600 if ctx.tier == "quick" else 7000)
    elif fam == "steer-memory":
        steer_memory(ctx, 5000 if ctx.tier == "quick" else 10000)  # in its own fresh process: peak RSS is a high-water mark
    elif fam == "small-sweep":
        small_sweep(ctx)
    else:
        res = run_pipeline(ctx, G.family(fam, n), f"{fam}{n}")
        record(ctx, res, fam, n)
        ctx.sample({"family": fam, "atoms": res["atoms"], "completed": res["ok"], "refinement_rounds": res["rounds"], "wall_s": res["wall_s"]})
    ctx.maxi("max_rss_mb", resource.getrusage(resource.RUSAGE_SELF).ru_maxrss // 1024)


def case_of_shard(tier, shard):
    fam, n = JOBS[tier][shard]
    return {"family": fam, "n": n} if fam not in ("steer", "steer-memory", "small-sweep") else None


def replay(ctx, w):
    bridge.import_tucan()
    if not w.get("case"):
        return
    if w["case"].get("memory"):
        import json as _json, subprocess
        fam, n = w["case"]["family"], w["case"]["n"]
        p = subprocess.run(["/venv/bin/python", os.path.join(os.path.dirname(os.path.dirname(os.path.abspath(__file__))), "c15_child.py"), ctx.repo, fam, str(n),
                            str(MEMORY_BUDGET_MB + 150)], capture_output=True, text=True, timeout=3000)
        r = _json.loads(p.stdout.strip().splitlines()[-1]) if p.stdout.strip() else {"ok": False, "exception": "child died", "stage": "?"}
        ctx.evaluations += 1
        if not r["ok"]:
            ctx.violation("completion:memory", {"what": f"pipeline ended in {r['exception']} during {r['stage']} within the memory budget", "family": fam, "atoms": n}, w["case"])
        return
    if w["case"].get("route") == "collection":
        collection_route(ctx)
        return
    if w["case"].get("route") in ("v2000", "v3000"):
        molfile_route(ctx)
        return
    fam, n = w["case"]["family"], w["case"]["n"]
    record(ctx, run_pipeline(ctx, G.family(fam, n), f"{fam}{n}"), fam, n)
