"""C01 - TUCAN string invariant under atom/bond reordering.

Monitor (a): metamorphic contract on canonicalize_molecule (shadow relabellings through the original pipeline).
Monitor (b): trace checker "one string per molecule id" over pipeline executions on variants that enter as
             graphs and as V3000 text with permuted atom lines, bond lines, bond endpoints and index values.
"""
import json
import os
import random

from .. import bridge, monitors
from ..core import MonitorViolation, h
from ..gen import mols as G
from ..oracles import ctab, iso
from ..oracles.ctab import Mol
from . import common

SPEC = {
    "level": "exploration",
    "level_text": "Exploration by runtime monitoring: every canonicalize_molecule call is followed, inside an icontract post-condition, by k shadow runs of the real pipeline on harness-relabelled copies (permuted labels, shuffled node/edge insertion order, flipped bonds) and the strings are compared; a trace checker adds V3000- and V2000-text variants with permuted atom/bond lines and arbitrary indices, and an exhaustive comparison 'one string per isomorphism class' over ALL labelled graphs on <=4 vertices x 3 colours. Held means: no two observed descriptions of one molecule gave different bytes. The quantifier (all molecules, all n! relabellings) is infinite, so sampling hostile classes plus one exhaustive sub-space is the strongest statement a monitor can make.",
    "suite_under_monitor": True,
    "technique": "metamorphic runtime contract (icontract) on canonicalize_molecule + trace checker over pipeline events",
    "rule": ("cases = abstract molecules from classes M1 (all labelled graphs n<=4/5 x 3-colour palette), M2 random organic, "
             "M3 symmetric skeletons with partially labelled orbits, M4 multi-component, M5 all-element formulas, M6 corpus molfiles; "
             "each case runs the pipeline once under the contract (k shadow relabellings) plus graph- and V3000-text-route variants. "
             "distinct_nontrivial = distinct molecules (exact canonical form n<=7, else refinement fingerprint) with >= 3 atoms and "
             "at least one variant whose labelled edge set differs from the original's"),
    "assumptions": ["relabellings are applied by the harness, so 'same molecule' holds by construction",
                    "molecules <= 60 atoms in random classes; corpus as shipped",
                    "text route renders with the harness's own V3000 renderer"],
    "shards": {"quick": 16, "thorough": 16},
    "exhaustive_note": "all labelled simple graphs on n<=4 vertices x 3^n colourings from {C, 13C, C radical} (quick); n=5 sampled in thorough",
    "monitors_required": ["c01_shadow_compare", "c01_trace_compare", "c01_exhaustive_class_compare"],
    "required_obs": {"quick": ["cov_debug_logging_enabled", "shadow_inputs_with_noncontiguous_labels", "cov_foreign_attributes_with_common_names", "shadow_inputs_with_stale_partition", "shadow_inputs_relabelled_canonical_graph", "cov_multi_component", "cov_isotope_and_radical_on_one_atom", "cov_symmetric_partial_orbit",
                               "cov_text_route_variant", "cov_v2000_text_route_variant", "cov_nontrivial_relabelling", "cov_corpus"]},
    "watchdog_s": {"quick": 900, "thorough": 3600},
}

PLAN = {
    "quick": {"small_n": 4, "random": {"M2": 1400, "M3": 900, "M4": 300, "M5": 300, "M7s": 200, "M10hiso": 600, "M12rings": 500}, "variants": 2, "k": 2, "corpus": True, "cfi": 0},
    "thorough": {"small_n": 5, "small_sample": 0.12, "extra": [(6, [("C", 0, 0)])], "random": {"M2": 12000, "M3": 8000, "M4": 3000, "M5": 3000, "M7s": 1500, "M10hiso": 6000, "M12rings": 5000},
                 "variants": 4, "k": 4, "corpus": True, "cfi": 6},
}


def pipeline(g):
    import tucan.canonicalization as c
    import tucan.serialization as s
    return s.serialize_molecule(c.canonicalize_molecule(g))


def text_variant(mol: Mol, rng):
    """V3000 text of the same molecule: permuted atom lines, permuted bond lines, swapped endpoints, arbitrary indices."""
    n = len(mol.atoms)
    nb = len(mol.bonds)
    idx = rng.sample(range(1, max(3 * n, n + 5) + 1), n) if rng.random() < 0.7 else list(range(1, n + 1))
    style = ctab.V3Style(index_map=idx, atom_order=rng.sample(range(n), n), bond_order=rng.sample(range(nb), nb),
                         bond_flip=[rng.random() < 0.5 for _ in range(nb)])
    return ctab.render_v3000(mol, style, rng)


def run_case(ctx, case):
    return common.case_guard(ctx, case, _run_case)


def _run_case(ctx, case):
    import tucan.io.molfile_reader as mr
    plan = PLAN[ctx.tier]
    rng = random.Random(case["vseed"])
    if case["kind"] == "mol":
        mol = Mol.from_json(case["mol"])
        g0 = bridge.graph_direct(mol)
    else:
        g0 = common.tag_graph(mr.graph_from_file(case["path"]))
        mol = None
    if rng.random() < 0.25:
        from .molprops import add_foreign_attributes
        add_foreign_attributes(ctx, g0, rng)
    n = g0.number_of_nodes()
    ctx.evaluations += 1
    try:
        s0 = pipeline(g0)
    except MonitorViolation as v:
        ctx.violation(v.monitor, v.witness, case, v.prop)
        return
    strings = [("original", s0)]
    nontrivial = False
    e0 = {frozenset(e) for e in g0.edges()}
    mon_off = monitors.S.depth
    # trace-level variants: executed through the same public functions; the per-call contract is switched off for
    # them (depth guard) so that the cost stays linear - the trace checker below is their oracle
    monitors.S.depth += 1
    try:
        for v in range(plan["variants"]):
            g1, perm = bridge.harness_relabel(g0, rng)
            if {frozenset(e) for e in g1.edges()} != e0:
                nontrivial = True
            strings.append((f"graph-relabel-{v}", pipeline(g1)))
            ctx.evaluations += 1
        if mol is not None and n >= 1:
            for v in range(max(1, plan["variants"] // 2)):
                m2, perm = G.relabel(mol, rng)
                txt = text_variant(m2, rng)
                g2 = mr.graph_from_molfile_text(txt)
                strings.append((f"v3000-text-{v}", pipeline(g2)))
                ctx.count("cov_text_route_variant")
                ctx.evaluations += 1
                if perm != sorted(perm):
                    nontrivial = True
            # the same molecule listed as a V2000 connection table (fixed columns; labels in M  CHG/RAD/ISO lines of 1..8 entries)
            m3, perm = G.relabel(mol, rng)
            m3.bonds = [(i, j, t if 1 <= t <= 8 else 1) for i, j, t in m3.bonds]  # bond type is non-identity data; V2000 knows 1..8
            if ctab.v2000_representable(m3):
                st = ctab.V2Style(encoding=rng.choice(["lines", "lines", "codes", "stale"]), per_line=rng.randint(1, 8), dt_symbols=rng.random() < 0.5,
                                  shuffle_entries=rng.random() < 0.5, interleave=rng.random() < 0.5)
                g3 = mr.graph_from_molfile_text(ctab.render_v2000(m3, st, rng))
                strings.append(("v2000-text", pipeline(g3)))
                ctx.count("cov_v2000_text_route_variant")
                ctx.evaluations += 1
    finally:
        monitors.S.depth -= 1
    ctx.mon("c01_trace_compare", len(strings) - 1)
    distinct = {s for _, s in strings}
    if len(distinct) > 1:
        ctx.violation("trace:one-string-per-molecule", {"what": "variants of one molecule produced different strings",
                                                         "strings": [[k, s[:300]] for k, s in strings]}, case)
    if nontrivial:
        ctx.count("cov_nontrivial_relabelling")
        if n >= 3:
            ctx.nontrivial(common.graph_key(g0))
    common.classify_mol(ctx, g0)
    if case.get("cls") == "M3" and "+0" not in case.get("name", "+0"):
        ctx.count("cov_symmetric_partial_orbit")
    if case.get("cls") == "M6":
        ctx.count("cov_corpus")
    ctx.seen("classes", case.get("cls"))
    if case.get("cls") == "M1" and getattr(ctx, "events", None) is not None:
        c, e = bridge.colors_edges(g0)
        ctx.events.write(json.dumps({"k": h(iso.canon_small(c, e)), "s": s0, "name": case.get("name")}) + "\n")
    ctx.sample({"class": case.get("cls"), "name": case.get("name"), "atoms": n, "string": s0[:120], "variants": len(strings) - 1})


def run(ctx):
    plan = PLAN[ctx.tier]
    monitors.install(ctx, {"C01"}, k_relabel=plan["k"], seed=f"{ctx.seed}/{ctx.shard}")
    ctx.events = open(ctx.events_path, "w")
    k = 0
    for mol in common.small_exhaustive(ctx, plan["small_n"], extra=plan.get("extra", ())):
        if plan.get("small_sample") and len(mol.atoms) == plan["small_n"] and ctx.rng.random() > plan["small_sample"]:
            continue
        run_case(ctx, {"kind": "mol", "mol": mol.to_json(), "cls": "M1", "name": mol.name, "vseed": f"{ctx.seed}/{mol.name}"})
    for mol in common.random_classes(ctx, plan["random"]):
        k += 1
        run_case(ctx, {"kind": "mol", "mol": mol.to_json(), "cls": mol.cls, "name": mol.name, "vseed": f"{ctx.seed}/{ctx.shard}/{k}"})
    if plan["corpus"]:
        for j, f in enumerate(common.corpus_files(ctx.repo)):
            if ctx.mine(j):
                run_case(ctx, {"kind": "file", "path": f, "cls": "M6", "name": f.split("/")[-1], "vseed": f"{ctx.seed}/{j}"})
    for mol in common.cfi_graphs(ctx, 400, plan["cfi"]):
        run_case(ctx, {"kind": "mol", "mol": mol.to_json(), "cls": "M6cfi", "name": mol.name, "vseed": f"{ctx.seed}/{mol.name}"})


def post_merge(res, tier, seed, repo, work):
    """Exhaustive small sub-space: every labelled graph is a relabelling of its class representative, so
    'one string per independent canonical form' over the merged event log is C01 on ALL n! relabellings."""
    by_class = {}
    n = 0
    for f in sorted(os.listdir(work)):
        if f.endswith(".events"):
            for line in open(os.path.join(work, f)):
                e = json.loads(line)
                n += 1
                by_class.setdefault(e["k"], {}).setdefault(e["s"], e["name"])
    violations = []
    for k, strings in by_class.items():
        if len(strings) > 1:
            violations.append({"property": "C01", "monitor": "trace:one-string-per-isomorphism-class(exhaustive)", "seed": seed, "tier": tier, "shard": -1,
                               "witness": {"what": "labelled versions of one small molecule (same independent canonical form) got different strings",
                                           "strings": [[name, s] for s, name in list(strings.items())[:4]]}, "case": None})
    return {"obs": {"exhaustive_events": n, "exhaustive_isomorphism_classes": len(by_class)}, "violations": violations[:10],
            "monitor_evals": {"c01_exhaustive_class_compare": len(by_class)}}


def replay(ctx, w):
    plan = PLAN[ctx.tier]
    if w.get("case") is None:
        return
    monitors.install(ctx, {"C01"}, k_relabel=max(8, plan["k"]), seed="replay")
    run_case(ctx, w["case"])
