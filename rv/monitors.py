"""Runtime monitors attached to the real tucan functions.

Contracts (icontract snapshot/ensure, named conditions, explicit error=) on
    tucan.canonicalization.canonicalize_molecule   C01 C04 C12 C13
    tucan.serialization.serialize_molecule         C03 C05 C12
    tucan.io.molfile_writer.graph_to_molfile       C09
    tucan.graph_utils.permute_molecule             C16
and a hand-written differential wrapper (raising paths matter) on
    tucan.parser.parser.graph_from_tucan           C10
Every reference bound by `from m import f` in any loaded tucan module is rebound, so calls made by the
library itself (tucan.test_utils, tucan.io re-exports) go through the monitors as well.
Shadow executions inside a condition always use the ORIGINAL (unwrapped) functions on copies.
"""
from __future__ import annotations
import random
import sys
from collections import Counter

from .core import MonitorViolation
from . import bridge
from .bridge import TAG, BTAG, fingerprint, harness_relabel, colors_edges
from .oracles import iso, tucan_grammar
from .oracles.elements import Z as Z_OF, SYMBOL as SYM_OF

SHADOW_MAX_N = 120  # shadow executions are skipped (and counted) above this size


class Keys:
    """Public attribute names; read from tucan.graph_attributes at install time (fallback: today's literals)."""
    PARTITION, INVARIANT_CODE, MASS, RAD, CHG, ELEMENT_SYMBOL, ATOMIC_NUMBER, EXPLORED, BOND_TYPE = (
        "partition", "invariant_code", "mass", "rad", "chg", "element_symbol", "atomic_number", "explored", "bond_type")

    @classmethod
    def load(cls):
        try:
            import tucan.graph_attributes as ga
            for name in ("PARTITION", "INVARIANT_CODE", "MASS", "RAD", "CHG", "ELEMENT_SYMBOL", "ATOMIC_NUMBER", "EXPLORED", "BOND_TYPE"):
                setattr(cls, name, getattr(ga, name, getattr(cls, name)))
        except Exception:
            pass


K = Keys


class State:
    ctx = None
    orig = {}
    enabled = set()
    mode = "raise"  # raise | record
    rng = random.Random(0)
    stash = None
    installed = False
    k_relabel = 2
    recorded = []  # record mode
    lib_keys = {"partition", "invariant_code"}  # node attributes that are the library's own bookkeeping (calibrated at install time)
    scratch_keys = {"explored"}  # node attributes serialize_molecule itself adds to a fresh argument (calibrated at install time)
    depth = 0  # > 0 while inside a monitor's own shadow execution


S = State


def _fail(prop, monitor, witness):
    """Called by a condition that found a violation. Returns the condition's value."""
    if S.mode == "record":
        S.recorded.append({"property": prop, "monitor": monitor, "witness": witness})
        return True
    S.stash = (prop, monitor, witness)
    return False


def _error():
    prop, monitor, witness = S.stash or ("?", "?", {})
    return MonitorViolation(prop, monitor, witness)


def _error_m(m):
    return _error()


def _error_graph(graph):
    return _error()


def _mon(name):
    if S.ctx is not None:
        S.ctx.mon(name)


def _graph_json(g, cap=60):
    if g.number_of_nodes() > cap:
        return {"n": g.number_of_nodes(), "m": g.number_of_edges(), "note": "too large to inline"}
    return {"nodes": [[n, {k: (v if isinstance(v, (int, float, str)) else repr(v)) for k, v in d.items()}] for n, d in g.nodes(data=True)],
            "edges": [[u, v, dict(d)] for u, v, d in g.edges(data=True)]}


def color_of(d):
    return (d[K.ATOMIC_NUMBER], d.get(K.MASS, 0) or 0, d.get(K.RAD, 0) or 0)


# =====================================================================================================
# canonicalize_molecule

def _node_map(r):
    return {v: (d.get(K.ELEMENT_SYMBOL), d.get(K.MASS) or 0, d.get(K.RAD) or 0, d.get(K.PARTITION)) for v, d in r.nodes(data=True)}


def _edge_set(r):
    return {frozenset((u, v)) for u, v in r.edges()}


def stale_partition(g, rng):
    """The same molecule carrying a STALE 'partition' attribute (what a graph looks like after an earlier, coarser partitioning step of the
    library's step-by-step API, or after being built from another graph): canonicalize_molecule must compute its classes from scratch."""
    mode = rng.choice(["atomic-number", "constant", "degree"])  # all coarser than the final partition and invariant under the molecule's symmetries
    ranks = {z: i for i, z in enumerate(sorted({d[K.ATOMIC_NUMBER] for _, d in g.nodes(data=True)}))}
    for v, d in g.nodes(data=True):
        d[K.PARTITION] = (ranks[d[K.ATOMIC_NUMBER]] if mode == "atomic-number" else 1 if mode == "constant" else g.degree(v))
    if S.ctx is not None:
        S.ctx.count("shadow_inputs_with_stale_partition")
    return g


def shadow_input(m, result, k):
    """k-th shadow description of the molecule: a harness relabelling of the argument; every third one carries a stale partition attribute,
    every fourth one is a relabelling of the RESULT (a canonical graph renumbered with plain networkx, graph-level attributes carried along)."""
    src = result if (k % 4 == 3 and result is not None) else m
    if src is result and S.ctx is not None:
        S.ctx.count("shadow_inputs_relabelled_canonical_graph")
    perm = None
    if k % 5 == 2:
        # atoms numbered sparsely / from 1 / negatively (a fragment cut out of a larger graph, a file's own index values kept as labels)
        nodes = list(src.nodes)
        # C01 speaks of "the numbering of atoms" (kept to non-negative numberings); C04/C13 of relabelings in general
        modes = ["sparse", "one-based", "large"] + ([] if (S.ctx is not None and S.ctx.prop == "C01") else ["negative"])
        mode = S.rng.choice(modes)
        img = {"sparse": [7 * i + 3 for i in range(len(nodes))], "one-based": list(range(1, len(nodes) + 1)),
               "negative": [-(i + 1) for i in range(len(nodes))], "large": [10 ** 6 + 13 * i for i in range(len(nodes))]}[mode]
        S.rng.shuffle(img)
        perm = dict(zip(nodes, img))
        if S.ctx is not None:
            S.ctx.count("shadow_inputs_with_noncontiguous_labels")
    m2, perm = harness_relabel(src, S.rng, perm)
    if k % 3 == 1:
        stale_partition(m2, S.rng)
    return m2, perm


def check_c04(m, result):
    """Labelled-graph equality of canonicalize(m) and canonicalize(pi(m)) for harness-drawn pi."""
    canon = S.orig["canonicalize_molecule"]
    n = m.number_of_nodes()
    if n > SHADOW_MAX_N:
        S.ctx and S.ctx.skip("c04_shadow_too_large")
        return None
    S.shadow_counter = getattr(S, "shadow_counter", 0)
    for k in range(S.k_relabel):
        S.shadow_counter += 1
        m2, perm = shadow_input(m, result, S.shadow_counter)
        r2 = canon(m2)
        _mon("c04_shadow_compare")
        if _node_map(result) != _node_map(r2) or _edge_set(result) != _edge_set(r2):
            nm1, nm2 = _node_map(result), _node_map(r2)
            diff_nodes = [v for v in nm1 if nm1.get(v) != nm2.get(v)][:5]
            return {"what": "canonicalize(G) and canonicalize(pi(G)) are different labelled graphs",
                    "differing_nodes": diff_nodes, "edges_only_in_first": sorted(map(sorted, _edge_set(result) - _edge_set(r2)))[:5],
                    "perm": {str(a): b for a, b in perm.items()} if n <= 60 else "large", "input": _graph_json(m)}
    return None


def check_c01_on_canon(m, result):
    """String equality of the pipeline on m and on harness-drawn relabellings of m."""
    canon, ser = S.orig["canonicalize_molecule"], S.orig["serialize_molecule"]
    n = m.number_of_nodes()
    if n > SHADOW_MAX_N:
        S.ctx and S.ctx.skip("c01_shadow_too_large")
        return None
    s1 = ser(result.copy())
    S.shadow_counter = getattr(S, "shadow_counter", 0)
    for k in range(S.k_relabel):
        S.shadow_counter += 1
        m2, perm = shadow_input(m, result, S.shadow_counter)
        s2 = ser(canon(m2))
        _mon("c01_shadow_compare")
        if s1 != s2:
            return {"what": "tucan(G) != tucan(pi(G))", "s1": s1[:300], "s2": s2[:300],
                    "perm": {str(a): b for a, b in perm.items()} if n <= 60 else "large", "input": _graph_json(m)}
    return None


def check_c12_canon(m, result, old_fp):
    """Result is the argument under a bijective renaming onto 0..n-1; argument untouched; repeatable."""
    canon = S.orig["canonicalize_molecule"]
    _mon("c12_canon")
    if fingerprint(m) != old_fp:
        return {"what": "argument graph modified by canonicalize_molecule", "input_before": repr(old_fp)[:600]}
    n = m.number_of_nodes()
    if sorted(result.nodes) != list(range(n)):
        return {"what": "result labels are not 0..n-1", "labels": sorted(result.nodes)[:50], "n": n}
    if result.number_of_edges() != m.number_of_edges():
        return {"what": "bond count changed", "before": m.number_of_edges(), "after": result.number_of_edges(), "input": _graph_json(m)}

    def strip(d):
        return {k: v for k, v in d.items() if k not in S.lib_keys}

    tagged = all(TAG in d for _, d in m.nodes(data=True)) and len({d[TAG] for _, d in m.nodes(data=True)}) == n
    if tagged:
        by_tag_in = {d[TAG]: (v, strip(d)) for v, d in m.nodes(data=True)}
        by_tag_out = {d.get(TAG): (v, strip(d)) for v, d in result.nodes(data=True)}
        if set(by_tag_in) != set(by_tag_out):
            return {"what": "atoms lost or added (tags differ)", "input": _graph_json(m)}
        f = {}
        for t, (v, d) in by_tag_in.items():
            w, d2 = by_tag_out[t]
            if any(k not in d2 or d2[k] != x for k, x in d.items()):  # every input attribute kept (attributes the library adds are fine)
                return {"what": "atom attributes changed", "tag": t, "before": repr(d), "after": repr(d2)}
            f[v] = w
        ein = {frozenset((f[u], f[v])): dict(d) for u, v, d in m.edges(data=True)}
        eout = {frozenset((u, v)): dict(d) for u, v, d in result.edges(data=True)}
        if set(ein) != set(eout) or any(k not in eout[e] or eout[e][k] != x for e, d in ein.items() for k, x in d.items()):
            bad = [sorted(e) for e in set(ein) ^ set(eout)][:5] or [sorted(e) for e in ein if ein[e] != eout.get(e)][:5]
            return {"what": "bonds or bond attributes not carried by the renaming", "differing": bad, "input": _graph_json(m)}
    else:
        a = Counter(repr(sorted(strip(d).items(), key=str)) for _, d in m.nodes(data=True))
        b = Counter(repr(sorted(strip(d).items(), key=str)) for _, d in result.nodes(data=True))
        if a != b:
            return {"what": "multiset of atom attribute dicts changed", "input": _graph_json(m)}
        def ekey(g, u, v, d):
            return repr((sorted([repr(sorted(strip(g.nodes[u]).items(), key=str)), repr(sorted(strip(g.nodes[v]).items(), key=str))]), sorted(d.items())))
        if Counter(ekey(m, u, v, d) for u, v, d in m.edges(data=True)) != Counter(ekey(result, u, v, d) for u, v, d in result.edges(data=True)):
            return {"what": "multiset of bonds (endpoint attributes, bond attributes) changed", "input": _graph_json(m)}
    if n <= SHADOW_MAX_N:
        try:
            again = canon(m)
        except Exception as e:
            return {"what": "second canonicalize call on the same object raised", "exception": f"{type(e).__name__}: {e}"[:200], "input": _graph_json(m)}
        _mon("c12_canon_repeat")
        if fingerprint(again) != fingerprint(result):
            return {"what": "second canonicalize call on the same object gave a different result", "input": _graph_json(m)}
    return None


def _aut_generators(colors, edges):
    import igraph
    ids = {c: i for i, c in enumerate(sorted(set(colors)))}
    g = igraph.Graph(n=len(colors), edges=sorted({(min(a, b), max(a, b)) for a, b in edges}))
    return g.automorphism_group(color=[ids[c] for c in colors])


def check_c13(m, result):
    _mon("c13_classes")
    cls = {v: d.get(K.PARTITION) for v, d in result.nodes(data=True)}
    col = {v: color_of(d) for v, d in result.nodes(data=True)}
    by = {}
    for v, c in cls.items():
        by.setdefault(c, []).append(v)
    for c, members in by.items():
        if len({col[v] for v in members}) > 1:
            return {"what": "one class holds atoms of different (element, mass, radical)", "class": c,
                    "members": members[:10], "colours": [col[v] for v in members[:10]], "input": _graph_json(m)}
        sigs = {tuple(sorted(cls[u] for u in result.neighbors(v))) for v in members}
        if len(sigs) > 1:
            return {"what": "partition not equitable (not stable under refinement)", "class": c, "members": members[:10],
                    "neighbour_class_multisets": [list(s) for s in list(sigs)[:3]], "input": _graph_json(m)}
    n = result.number_of_nodes()
    if S.ctx is not None:
        S.ctx.maxi("max_classes", len(by))
    if n <= 400:
        nodes = sorted(result.nodes)
        idx = {v: k for k, v in enumerate(nodes)}
        colors = [col[v] for v in nodes]
        edges = [(idx[u], idx[v]) for u, v in result.edges()]
        gens = _aut_generators(colors, edges)
        _mon("c13_orbit_check")
        parent = list(range(n))

        def find(x):
            while parent[x] != x:
                parent[x] = parent[parent[x]]
                x = parent[x]
            return x

        for g in gens:
            for k, img in enumerate(g):
                if cls[nodes[k]] != cls[nodes[img]]:
                    return {"what": "two symmetry-equivalent atoms are in different classes", "atoms": [nodes[k], nodes[img]],
                            "classes": [cls[nodes[k]], cls[nodes[img]]], "input": _graph_json(m)}
                ra, rb = find(k), find(img)
                if ra != rb:
                    parent[ra] = rb
        n_orbits = len({find(k) for k in range(n)})
        if S.ctx is not None:
            if gens:
                S.ctx.count("c13_cases_with_nontrivial_symmetry")
            if len(by) < n_orbits:
                S.ctx.count("c13_classes_coarser_than_orbits")
            if len(by) > n_orbits:
                return {"what": "more classes than orbits although generators respected?", "input": _graph_json(m)}
    else:
        S.ctx and S.ctx.skip("c13_orbits_too_large")
    # label independence through the tag bijection
    if n <= SHADOW_MAX_N and all(TAG in d for _, d in m.nodes(data=True)):
        canon = S.orig["canonicalize_molecule"]
        t1 = {d[TAG]: d.get(K.PARTITION) for _, d in result.nodes(data=True)}
        S.shadow_counter = getattr(S, "shadow_counter", 0)
        for k in range(S.k_relabel):
            S.shadow_counter += 1
            m2, perm = shadow_input(m, result, S.shadow_counter)
            r2 = canon(m2)
            _mon("c13_label_independence")
            t2 = {d.get(TAG): d.get(K.PARTITION) for _, d in r2.nodes(data=True)}
            if t1 != t2:
                bad = [t for t in t1 if t1[t] != t2.get(t)][:5]
                return {"what": "class of an atom depends on numbering/order", "tags": bad,
                        "classes_1": [t1[t] for t in bad], "classes_2": [t2.get(t) for t in bad], "input": _graph_json(m)}
    return None


def _canon_snapshot(m):
    return fingerprint(m)


def _canon_post(m, result, OLD):
    if S.depth:
        return True
    S.depth += 1
    try:
        if "C12" in S.enabled:
            w = check_c12_canon(m, result, OLD.fp)
            if w:
                return _fail("C12", "canonicalize:rename-only", w)
        if "C04" in S.enabled:
            w = check_c04(m, result)
            if w:
                return _fail("C04", "canonicalize:shadow-relabel", w)
        if "C13" in S.enabled:
            w = check_c13(m, result)
            if w:
                return _fail("C13", "canonicalize:classes", w)
        if "C01" in S.enabled:
            w = check_c01_on_canon(m, result)
            if w:
                return _fail("C01", "pipeline:shadow-relabel", w)
        return True
    finally:
        S.depth -= 1


# =====================================================================================================
# serialize_molecule

def layout_inputs(m):
    elem = Counter(d["element_symbol"] for _, d in m.nodes(data=True))
    labelled = Counter((d["element_symbol"], d.get("mass", 0) or 0, d.get("rad", 0) or 0)
                       for _, d in m.nodes(data=True) if (d.get("mass") or d.get("rad")))
    pairs = Counter(tuple(sorted((m.nodes[u]["element_symbol"], m.nodes[v]["element_symbol"]))) for u, v in m.edges())
    return elem, m.number_of_edges(), labelled, pairs


def check_c05(m, result):
    _mon("c05_validate")
    elem, ne, labelled, pairs = layout_inputs(m)
    if not isinstance(result, str):
        return {"what": "serialize_molecule did not return a str", "type": type(result).__name__}
    bad = tucan_grammar.validate_layout(result, elem, ne, labelled, pairs)
    # explicit zero attributes stored on the argument are the business of the emitting string only
    if bad:
        return {"what": "emitted string violates grammar/canonical layout", "string": result[:400], "complaints": bad[:5], "input": _graph_json(m)}
    return None


def check_c03(m, result):
    parse, canon, ser = S.orig["graph_from_tucan"], S.orig["canonicalize_molecule"], S.orig["serialize_molecule"]
    n = m.number_of_nodes()
    if n > 400:
        S.ctx and S.ctx.skip("c03_too_large")
        return None
    _mon("c03_parse_back")
    try:
        p = parse(result)
    except Exception as e:  # the pipeline's own output must be parseable
        return {"what": "pipeline output rejected by the parser", "string": result[:400], "exception": f"{type(e).__name__}: {e}"[:300], "input": _graph_json(m)}
    if p.number_of_nodes() != n or p.number_of_edges() != m.number_of_edges():
        return {"what": "atom/bond count differs after parse-back", "string": result[:400], "input": _graph_json(m)}
    c1, e1 = colors_edges(m)
    c2, e2 = colors_edges(p)
    try:
        same = iso.isomorphic(c1, e1, c2, e2)
    except iso.Inconclusive:
        S.ctx and S.ctx.hard_inconclusive.append("c03: isomorphism oracle exhausted its budget")
        same = True
    if not same:
        return {"what": "parse(tucan(G)) is not colour-isomorphic to G", "string": result[:400], "input": _graph_json(m)}
    # search-free second oracle: the reference reader's labelled graph equals the library parser's labelled graph
    try:
        ref = tucan_grammar.reference_read(result)
        if [p.nodes[k]["element_symbol"] for k in range(n)] != ref.elements or {(min(a, b), max(a, b)) for a, b in p.edges()} != ref.edges:
            return {"what": "library parser and reference reader disagree on the emitted string", "string": result[:400]}
    except tucan_grammar.Reject:
        pass  # C05's business
    s2 = ser(canon(p))
    if s2 != result:
        return {"what": "tucan(parse(tucan(G))) != tucan(G)", "s1": result[:300], "s2": s2[:300], "input": _graph_json(m)}
    return None


def check_c12_ser(m, result, old_fp):
    _mon("c12_serialize")
    now = fingerprint(m, ignore_keys=S.scratch_keys)
    if now != old_fp:
        return {"what": "serialize_molecule altered its argument beyond the scratch flag", "before": repr(old_fp)[:500], "after": repr(now)[:500]}
    try:
        again = S.orig["serialize_molecule"](m)
    except Exception as e:
        return {"what": "second serialize call on the same object raised", "exception": f"{type(e).__name__}: {e}"[:200], "first_result": result[:200]}
    if again != result:
        return {"what": "second serialize call on the same object gave a different string", "s1": result[:300], "s2": again[:300]}
    if fingerprint(m, ignore_keys=S.scratch_keys) != old_fp:
        return {"what": "serialize_molecule altered its argument on the repeated call"}
    return None


def _ser_snapshot(m):
    return fingerprint(m, ignore_keys=S.scratch_keys)


def _ser_post(m, result, OLD):
    if S.depth:
        return True
    S.depth += 1
    try:
        if "C05" in S.enabled:
            w = check_c05(m, result)
            if w:
                return _fail("C05", "serialize:grammar+layout", w)
        if "C12" in S.enabled:
            w = check_c12_ser(m, result, OLD.fp)
            if w:
                return _fail("C12", "serialize:argument-unchanged", w)
        if "C03" in S.enabled:
            w = check_c03(m, result)
            if w:
                return _fail("C03", "serialize:parse-back", w)
        return True
    finally:
        S.depth -= 1


# =====================================================================================================
# graph_to_molfile  (C09)

def check_c09(graph, result):
    import math
    _mon("c09_writer")
    read = S.orig["graph_from_molfile_text"]
    lines = result.split("\n")
    while len(lines) > 1 and lines[-1] == "":
        lines.pop()  # a file may or may not end with a newline
    ctx = S.ctx
    for ln in lines:
        if ctx is not None and len(ln) >= 70:
            ctx.seen("physical_line_len", len(ln))
        if len(ln) > 79:
            return {"what": "physical line longer than 80 characters incl. newline", "length": len(ln), "line": ln, "input": _graph_json(graph)}
    # observability: logical line lengths, wraps per logical line, character classes around each wrap
    if ctx is not None:
        logical, wraps, in_bond_block = "", 0, False
        for k, ln in enumerate(lines[4:-1], start=4):
            body = ln[7:]
            if ln.endswith("-") and k + 1 < len(lines) - 1 and lines[k + 1].startswith("M  V30 "):
                before, after = ln[-2], lines[k + 1][7:8]
                cls = ("after-minus" if before == "-" else "before-blank" if after == " " else "after-blank" if before == " "
                       else "in-number" if (before.isdigit() or before == ".") and (after.isdigit() or after == ".")
                       else "digit-then-dot-or-dot-then-digit" if before in ".0123456789" and after in ".0123456789"
                       else "in-keyword" if before.isalpha() and (after.isalpha() or after == "=") else "after-equals" if before == "=" else "other")
                ctx.seen("wrap_class", cls)
                logical += body[:-1]
                wraps += 1
                continue
            logical += body
            if wraps and in_bond_block:
                ctx.count("wrapped_bond_lines")
            if body.split() == ["BEGIN", "BOND"]:
                in_bond_block = True
            elif body.split() == ["END", "BOND"]:
                in_bond_block = False
            if len(logical) >= 66:
                ctx.seen("logical_line_len", len(logical))
            ctx.seen("wraps_per_logical_line", min(wraps, 3))
            logical, wraps = "", 0
    n, ne = graph.number_of_nodes(), graph.number_of_edges()
    if (len(lines) < 9 or lines[3].rstrip().split(" ")[-1] != "V3000" or lines[-1].rstrip() != "M  END" or lines[4].split() != ["M", "V30", "BEGIN", "CTAB"]
            or lines[-2].split() != ["M", "V30", "END", "CTAB"]):
        return {"what": "malformed frame", "head": lines[:6], "tail": lines[-2:]}
    if any(not l.startswith("M  V30 ") for l in lines[4:-1]):
        return {"what": "CTAB line without 'M  V30 ' prefix"}
    try:
        back = read(result)
    except Exception as e:
        return {"what": "written molfile rejected by the reader", "exception": f"{type(e).__name__}: {e}"[:300], "text": result[:1500], "input": _graph_json(graph)}
    if back.number_of_nodes() != n or back.number_of_edges() != ne:
        return {"what": "atom/bond count differs after read-back", "text": result[:1500]}
    pos = {v: k for k, v in enumerate(graph.nodes)}
    for k, (v, d) in enumerate(graph.nodes(data=True)):
        b = back.nodes[k]
        if b["element_symbol"] != d["element_symbol"]:
            return {"what": "element differs after read-back", "position": k}
        for key, lo, hi in (("chg", -15, 15), ("rad", 1, 3), ("mass", 1, None)):
            want = d.get(key) or 0
            if want and (want < lo or (hi is not None and want > hi)):
                want = 0  # outside the format's range: the writer omits it (outside the property's domain)
            if (b.get(key) or 0) != want:
                return {"what": f"{key} differs after read-back", "position": k, "written_for": d.get(key), "read": b.get(key), "text": result[:1500]}
        for key in ("x_coord", "y_coord", "z_coord"):
            want = float(d.get(key, 0))
            got = b[key]
            # "to six decimals": the value read back may differ from the written one by half a unit of the sixth decimal (plus float spacing)
            if not (abs(got - want) <= 0.5e-6 * (1 + 1e-9) + 2 * math.ulp(max(abs(got), abs(want)))):
                return {"what": "coordinate differs after read-back (six decimals)", "position": k, "key": key, "want": want, "got": got, "text": result[:1500]}
    ein = {frozenset((pos[u], pos[v])): d.get("bond_type", 1) for u, v, d in graph.edges(data=True)}
    eout = {frozenset((u, v)): d.get("bond_type") for u, v, d in back.edges(data=True)}
    if ein != eout:
        return {"what": "bonds/bond types differ after read-back", "text": result[:1500], "input": _graph_json(graph)}
    return None


def _writer_post(graph, calc_coordinates, result):
    if S.depth:
        return True
    S.depth += 1
    try:
        if calc_coordinates:
            return True  # coordinates are recomputed by design; only the default path is claimed
        w = check_c09(graph, result)
        if w:
            return _fail("C09", "writer:read-back", w)
        return True
    finally:
        S.depth -= 1


# =====================================================================================================
# permute_molecule (C16)

def check_c16(m, random_seed, result, old_fp):
    _mon("c16_permute")
    if fingerprint(m) != old_fp:
        return {"what": "permute_molecule modified its argument"}
    n = m.number_of_nodes()
    if sorted(result.nodes, key=repr) != sorted(m.nodes, key=repr):
        return {"what": "label set changed", "before": sorted(m.nodes, key=repr)[:30], "after": sorted(result.nodes, key=repr)[:30]}
    if list(result.nodes) != sorted(result.nodes):
        return {"what": "atoms not listed in label order", "order": list(result.nodes)[:30]}
    if result.number_of_edges() != m.number_of_edges():
        return {"what": "bond count changed"}
    tagged = all(TAG in d for _, d in m.nodes(data=True)) and len({d[TAG] for _, d in m.nodes(data=True)}) == n
    if tagged:
        tin = {d[TAG]: (v, d) for v, d in m.nodes(data=True)}
        tout = {d.get(TAG): (v, d) for v, d in result.nodes(data=True)}
        if set(tin) != set(tout):
            return {"what": "atoms lost/duplicated (tags)"}
        f = {}
        for t, (v, d) in tin.items():
            w, d2 = tout[t]
            if any(k not in d2 or d2[k] != x for k, x in d.items()):
                return {"what": "atom attributes not carried along", "tag": t, "before": repr(d), "after": repr(d2)}
            f[v] = w
        ein = {frozenset((f[u], f[v])): dict(d) for u, v, d in m.edges(data=True)}
        eout = {frozenset((u, v)): dict(d) for u, v, d in result.edges(data=True)}
        if set(ein) != set(eout) or any(k not in eout[e] or eout[e][k] != x for e, d in ein.items() for k, x in d.items()):
            return {"what": "not an isomorphic image with bond attributes", "input": _graph_json(m)}
    else:
        a = Counter(repr(sorted(d.items(), key=str)) for _, d in m.nodes(data=True))
        b = Counter(repr(sorted(d.items(), key=str)) for _, d in result.nodes(data=True))
        if a != b:
            return {"what": "multiset of atom attribute dicts changed"}
        try:
            c1, e1 = [repr(sorted(d.items(), key=str)) for _, d in sorted(m.nodes(data=True))], None
        except Exception:
            pass
    import networkx as nx
    if m.number_of_edges() > 1 and nx.density(m) != 1:
        if {frozenset(e) for e in m.edges()} == {frozenset(e) for e in result.edges()}:
            return {"what": "edge set unchanged although >= 2 bonds and not complete", "seed": random_seed, "input": _graph_json(m)}
    # fault injection at the helper's source of randomness: the first K shuffles come out as the identity (the rarest schedule a real
    # RNG can produce); a faithful helper keeps drawing until the edge set changes
    if m.number_of_edges() > 1 and nx.density(m) != 1 and n <= 60 and S.rng.random() < 0.15:
        w = _hostile_rng_check(m, random_seed)
        if w:
            return w
    try:
        again = S.orig["permute_molecule"](m, random_seed)
    except Exception as e:
        return {"what": "second permute_molecule call with the same seed raised", "exception": f"{type(e).__name__}: {e}"[:200]}
    if fingerprint(again) != fingerprint(result):
        return {"what": "same seed, different result", "seed": random_seed}
    return None


def _hostile_rng_check(m, random_seed):
    import random as _random
    k = S.rng.choice([1, 2, 3, 5, 17])  # runs of draws that leave the edge set unchanged happen for real seeds on symmetric molecules
    state = {"calls": 0}
    orig_mod_shuffle, orig_cls_shuffle = _random.shuffle, _random.Random.shuffle

    def cls_shuffle(self, x, *a, **kw):
        state["calls"] += 1
        if state["calls"] <= k:
            return None  # identity "shuffle"
        return orig_cls_shuffle(self, x, *a, **kw)

    def mod_shuffle(x, *a, **kw):
        state["calls"] += 1
        if state["calls"] <= k:
            return None
        return orig_mod_shuffle(x, *a, **kw)
    _random.shuffle, _random.Random.shuffle = mod_shuffle, cls_shuffle
    try:
        r = S.orig["permute_molecule"](m, random_seed)
    except Exception as e:
        return {"what": "permute_molecule raised when its first shuffles were identities", "exception": f"{type(e).__name__}: {e}"[:200], "k": k}
    finally:
        _random.shuffle, _random.Random.shuffle = orig_mod_shuffle, orig_cls_shuffle
    if state["calls"]:
        _mon("c16_hostile_rng_injection")
        if {frozenset(e) for e in m.edges()} == {frozenset(e) for e in r.edges()}:
            return {"what": "edge set unchanged after the first K shuffles came out as identities (the helper gave up retrying)", "K": k, "shuffles_drawn": state["calls"],
                    "seed": random_seed, "input": _graph_json(m)}
    return None


def _perm_snapshot(m):
    return fingerprint(m)


def _perm_post(m, random_seed, result, OLD):
    if S.depth:
        return True
    S.depth += 1
    try:
        w = check_c16(m, random_seed, result, OLD.fp)
        if w:
            return _fail("C16", "permute:faithful-copy", w)
        return True
    finally:
        S.depth -= 1


# =====================================================================================================
# graph_from_tucan differential wrapper (C10) -- hand-written because the raising paths matter

def compare_parse(s, outcome, value):
    """outcome in {'ok','raise'}; value = graph or exception. Returns witness or None."""
    _mon("c10_differential")
    ctx = S.ctx
    try:
        ref = tucan_grammar.reference_read(s)
        ref_ok = True
    except tucan_grammar.Reject as r:
        ref_ok = False
        reason = r.reason
    if outcome == "raise":
        if not isinstance(value, parser_exception_type()):
            return {"what": "rejected with an unrelated exception type", "string": s[:400], "exception": f"{type(value).__name__}: {value}"[:300]}
        if ref_ok:
            return {"what": "library rejects a string the reference reader accepts", "string": s[:400], "exception": str(value)[:300]}
        if ctx is not None:
            ctx.seen("reject_reason", reason)
        return None
    if not ref_ok:
        return {"what": "library accepts a string the reference reader rejects", "string": s[:400], "reference_reason": reason}
    g = value
    n = len(ref.elements)
    if sorted(g.nodes) != list(range(n)):
        return {"what": "node set is not 0..n-1 of the formula", "string": s[:400], "nodes": sorted(g.nodes)[:40], "n": n}
    for k in range(n):
        d = g.nodes[k]
        if d.get("element_symbol") != ref.elements[k] or d.get("atomic_number") != Z_OF[ref.elements[k]]:
            return {"what": "element at index differs from reference", "string": s[:400], "index": k + 1, "got": d.get("element_symbol"), "want": ref.elements[k]}
        want = ref.attrs.get(k, {})
        got = {key: d[key] for key in ("mass", "rad") if key in d}
        if got != want:
            return {"what": "attributes at index differ from reference", "string": s[:400], "index": k + 1, "got": got, "want": want}
    if {(min(a, b), max(a, b)) for a, b in g.edges()} != ref.edges:
        return {"what": "bond set differs from reference", "string": s[:400]}
    if ctx is not None:
        ctx.count("accepted")
    return None


def parser_exception_type():
    """The parser's own exception type, through the public export first."""
    try:
        from tucan.io import TucanParserException
        return TucanParserException
    except Exception:
        import tucan.parser.parser as pp
        return pp.TucanParserException


def _make_parse_wrapper(orig):
    def graph_from_tucan(tucan):
        if S.depth or "C10" not in S.enabled:
            return orig(tucan)
        S.depth += 1
        try:
            try:
                g = orig(tucan)
            except BaseException as e:
                w = compare_parse(tucan, "raise", e)
                if w and not _fail("C10", "parser:differential", w):
                    raise _error() from e
                raise
            w = compare_parse(tucan, "ok", g)
            if w and not _fail("C10", "parser:differential", w):
                raise _error()
            return g
        finally:
            S.depth -= 1
    graph_from_tucan.__wrapped__ = orig
    graph_from_tucan.__doc__ = orig.__doc__
    return graph_from_tucan


# =====================================================================================================
# installation

TARGETS = {
    "canonicalize_molecule": "tucan.canonicalization",
    "serialize_molecule": "tucan.serialization",
    "graph_from_tucan": "tucan.parser.parser",
    "graph_from_molfile_text": "tucan.io.molfile_reader",
    "graph_from_file": "tucan.io.molfile_reader",
    "graph_to_molfile": "tucan.io.molfile_writer",
    "permute_molecule": "tucan.graph_utils",
}


def _rebind(name, orig, new):
    k = 0
    for modname, mod in list(sys.modules.items()):
        if mod is None or not (modname == "tucan" or modname.startswith("tucan.") or modname.startswith("tests") or modname.startswith("test_")):
            continue
        d = getattr(mod, "__dict__", {})
        for attr, val in list(d.items()):
            if val is orig:
                setattr(mod, attr, new)
                k += 1
    return k


def _calibrate_library_keys():
    """Node attributes the library ADDS itself to a canonicalized graph (keys absent from the input): its own bookkeeping namespace, like
    'partition'. Only newly added keys qualify, so a chemically meaningful or user attribute can never be excluded from the comparison."""
    try:
        from .oracles.ctab import Atom, Mol
        g = bridge.graph_direct(Mol([Atom("C", tag=0), Atom("O", tag=1), Atom("H", tag=2)], [(0, 1, 1), (1, 2, 1)]))
        before = set().union(*(set(d) for _, d in g.nodes(data=True)))
        r = S.orig["canonicalize_molecule"](g)
        after = set().union(*(set(d) for _, d in r.nodes(data=True)))
        return after - before
    except Exception:
        return set()


def _calibrate_scratch_keys():
    """Keys serialize_molecule ADDS to the nodes of a fresh argument (its scratch namespace, today 'explored'); only added keys qualify."""
    try:
        from .oracles.ctab import Atom, Mol
        g = S.orig["canonicalize_molecule"](bridge.graph_direct(Mol([Atom("C", tag=0), Atom("O", tag=1)], [(0, 1, 1)])))
        before = set().union(*(set(d) for _, d in g.nodes(data=True)))
        S.orig["serialize_molecule"](g)
        after = set().union(*(set(d) for _, d in g.nodes(data=True)))
        return after - before
    except Exception:
        return set()


def _shim(orig, inner_factory, n_canon):
    """The contract is attached to an inner function whose parameter names are the harness's own; the outer function accepts whatever
    signature the library function has (positional order is what matters), so renaming a parameter in the library cannot break a monitor."""
    import functools
    import inspect
    sig = inspect.signature(orig)
    pending = []

    def call():
        args, kwargs = pending[-1]
        return orig(*args, **kwargs)
    inner = inner_factory(call)

    @functools.wraps(orig)
    def outer(*args, **kwargs):
        ba = sig.bind(*args, **kwargs)
        ba.apply_defaults()
        vals = list(ba.arguments.values())[:n_canon]
        pending.append((args, kwargs))
        try:
            return inner(*vals)
        finally:
            pending.pop()
    return outer


def install(ctx, enabled, mode="raise", k_relabel=2, seed=0):
    """Attach the monitors needed for the property ids in `enabled`."""
    import importlib
    import icontract
    bridge.import_tucan()
    if S.installed:
        uninstall()
    S.ctx, S.enabled, S.mode, S.k_relabel = ctx, set(enabled), mode, k_relabel
    S.rng = random.Random(f"monitor/{seed}")
    S.orig = {}
    for name, modname in TARGETS.items():
        S.orig[name] = getattr(importlib.import_module(modname), name)
    if ctx is not None and getattr(ctx, "shard", 0) % 4 == 3 and mode == "raise":
        # a host application's logging configuration is process state too: a quarter of the shards run with DEBUG logging switched on
        import logging
        logging.getLogger().setLevel(logging.DEBUG)
        if not logging.getLogger().handlers:
            logging.getLogger().addHandler(logging.NullHandler())
        ctx.count("cov_debug_logging_enabled")
    K.load()
    S.lib_keys = {K.PARTITION, K.INVARIANT_CODE} | _calibrate_library_keys()
    S.scratch_keys = {K.EXPLORED} | _calibrate_scratch_keys()
    new = {}

    def canon_inner(call):
        def canonicalize_molecule(m):
            return call()
        return icontract.snapshot(_canon_snapshot, name="fp")(icontract.ensure(_canon_post, error=_error_m)(canonicalize_molecule))

    def ser_inner(call):
        def serialize_molecule(m):
            return call()
        return icontract.snapshot(_ser_snapshot, name="fp")(icontract.ensure(_ser_post, error=_error_m)(serialize_molecule))

    def writer_inner(call):
        def graph_to_molfile(graph, calc_coordinates=False):
            return call()
        return icontract.ensure(_writer_post, error=_error_graph)(graph_to_molfile)

    def perm_inner(call):
        def permute_molecule(m, random_seed=None):
            return call()
        return icontract.snapshot(_perm_snapshot, name="fp")(icontract.ensure(_perm_post, error=_error_m)(permute_molecule))

    if S.enabled & {"C01", "C04", "C12", "C13"}:
        new["canonicalize_molecule"] = _shim(S.orig["canonicalize_molecule"], canon_inner, 1)
    if S.enabled & {"C03", "C05", "C12"}:
        new["serialize_molecule"] = _shim(S.orig["serialize_molecule"], ser_inner, 1)
    if "C09" in S.enabled:
        new["graph_to_molfile"] = _shim(S.orig["graph_to_molfile"], writer_inner, 2)
    if "C16" in S.enabled:
        new["permute_molecule"] = _shim(S.orig["permute_molecule"], perm_inner, 2)
    if "C10" in S.enabled:
        new["graph_from_tucan"] = _make_parse_wrapper(S.orig["graph_from_tucan"])
    S.rebound = {}
    for name, fn in new.items():
        S.rebound[name] = _rebind(name, S.orig[name], fn)
    S.new = new
    S.installed = True
    return new


def uninstall():
    if not S.installed:
        return
    for name, fn in S.new.items():
        _rebind(name, fn, S.orig[name])
    S.installed = False
