"""C14 runner: executes the fixed operation list in one of three modes and prints JSON.
    python c14_runner.py <ops.json> table
    python c14_runner.py <ops.json> history <table.json> <seed> <n_histories>
    python c14_runner.py <ops.json> threads <table.json> <seed> <T> <yield_prob>
Started as a script with a neutral cwd; imports tucan from TUCAN_VERIF_REPO."""
import json
import os
import random
import sys
import threading
import time

HERE = os.path.dirname(os.path.dirname(os.path.abspath(__file__)))
sys.path.insert(0, HERE)
sys.path.insert(1, os.path.join(HERE, ".deps"))
import faulthandler
faulthandler.enable()
from rv import bridge  # noqa

if os.environ.get("RV_LOGGING") == "DEBUG":
    import logging
    logging.getLogger().setLevel(logging.DEBUG)
    logging.getLogger().addHandler(logging.NullHandler())
bridge.import_tucan(os.environ.get("TUCAN_VERIF_REPO", "/repo"))
import tucan.canonicalization as C  # noqa
import tucan.serialization as S  # noqa
import tucan.parser.parser as P  # noqa
import tucan.io.molfile_reader as R  # noqa
import tucan.io.molfile_writer as W  # noqa
import tucan.graph_utils as GU  # noqa


def gfp(g):
    return repr(([(n, sorted(d.items(), key=lambda kv: kv[0])) for n, d in g.nodes(data=True)], [(u, v, sorted(d.items())) for u, v, d in g.edges(data=True)]))


def mask(text):
    lines = text.split("\n")
    if len(lines) > 1 and len(lines[1]) >= 20:
        lines[1] = lines[1][:10] + "##########" + lines[1][20:]
    return "\n".join(lines)


def execute(op):
    """Returns a result fingerprint string; exceptions are results too (type and message)."""
    try:
        kind, inp = op["op"], op["input"]
        if kind == "read":
            return "G:" + gfp(R.graph_from_molfile_text(inp))
        if kind == "read_file":
            # file-system history: every such operation of one thread uses the SAME path, and the file gets the same modification time each time
            import os, threading
            path = os.path.abspath(f"c14_same_path_{os.getpid()}_{threading.get_ident()}.mol")
            try:
                with open(path, "w") as f:
                    f.write(inp)
                os.utime(path, ns=(1_600_000_000 * 10 ** 9, 1_600_000_000 * 10 ** 9))
                return "S:" + S.serialize_molecule(C.canonicalize_molecule(R.graph_from_file(path)))
            finally:
                if os.path.exists(path):
                    os.unlink(path)
        if kind == "canon_text":
            return "G:" + gfp(C.canonicalize_molecule(R.graph_from_molfile_text(inp)))
        if kind == "ser_text":
            return "S:" + S.serialize_molecule(C.canonicalize_molecule(R.graph_from_molfile_text(inp)))
        if kind == "parse":
            return "G:" + gfp(P.graph_from_tucan(inp))
        if kind == "norm":
            return "S:" + S.serialize_molecule(C.canonicalize_molecule(P.graph_from_tucan(inp)))
        if kind == "write_text":
            return "T:" + mask(W.graph_to_molfile(R.graph_from_molfile_text(inp)))
        if kind == "write_tucan":
            return "T:" + mask(W.graph_to_molfile(P.graph_from_tucan(inp)))
        if kind == "write_calc":  # the writer's option that (re-)calculates atom positions
            return "T:" + mask(W.graph_to_molfile(P.graph_from_tucan(inp), True))
        raise ValueError(kind)
    except Exception as e:  # noqa
        return f"E:{type(e).__name__}:{e}"


def digest(s):
    import hashlib
    return hashlib.sha1(s.encode("utf-8", "replace")).hexdigest()[:20]


def mode_table(ops):
    return {op["id"]: digest(execute(op)) for op in ops}


def disturb(rng, ops):
    k = rng.randrange(5)
    if k == 0:
        random.seed(rng.random())
    elif k == 1:
        g = R.graph_from_molfile_text(next(o["input"] for o in ops if o["op"] == "read"))
        GU.permute_molecule(g, rng.random())
    elif k == 2:
        try:
            P.graph_from_tucan(rng.choice(["C2H6/(1-2", "Xx/", "CH4/(1-2)(", "C6H6/(1-7)(2:mass=", "H2O/(1-3)(2-3)/(3:rad=0)", "C/(1-1)", ""]))
        except Exception:
            pass
    elif k == 3:
        random.random()
    return k


def mode_history(ops, table, seed, n_hist):
    rng = random.Random(f"hist/{seed}")
    mism, executed, dist = [], 0, {}
    invalid_first = [o for o in ops if o["op"] == "parse" and o.get("invalid")]
    for hno in range(n_hist):
        order = list(ops)
        rng.shuffle(order)
        if hno % 2 == 0:
            order = invalid_first + [o for o in order if o not in invalid_first]  # rejected inputs first: cache half filled by failing parses
        for op in order:
            for rep in ("cold", "warm"):
                d = digest(execute(op))
                executed += 1
                if d != table[op["id"]]:
                    mism.append({"op": op["id"], "kind": op["op"], "history": hno, "rep": rep, "input": op["input"][:300], "got": execute(op)[:300]})
                k = disturb(rng, ops)
                dist[k] = dist.get(k, 0) + 1
    return {"executed": executed, "mismatches": mism[:20], "n_mismatch": len(mism), "disturbances": dist}


def mode_threads(ops, table, seed, T, p, per_thread=0, only_kinds=None, tucan_only=False):
    lock = threading.Lock()
    fills = []  # (thread index, simulator) in order of cache fills
    tidx = {}

    def wrap(cls, name):
        orig = cls.addDFAState

        def addDFAState(self, *a, **k):
            with lock:
                fills.append((tidx.get(threading.get_ident(), -1), name))
            return orig(self, *a, **k)
        cls.addDFAState = addDFAState
    try:  # observability of the shared parser cache; if the parser technology changes the schedule signature falls back to the switch trace
        from antlr4.atn.ParserATNSimulator import ParserATNSimulator
        from antlr4.atn.LexerATNSimulator import LexerATNSimulator
        wrap(ParserATNSimulator, "P")
        wrap(LexerATNSimulator, "L")
    except Exception:
        pass

    mon = sys.monitoring
    TOOL = 3
    mon.use_tool_id(TOOL, "rv-c14")
    state = {"switches": 0, "last": None, "events": 0, "yields": 0}
    switch_trace = []  # (thread index, code name) at each observed context switch
    rngs = {}
    keep = (os.sep + "tucan" + os.sep,) if tucan_only else ("/antlr4/", os.sep + "tucan" + os.sep)

    def on_line(code, line):
        fn = code.co_filename
        if not any(k in fn for k in keep):
            return mon.DISABLE
        me = threading.get_ident()
        r = rngs.get(me)
        if r is None:
            return None
        state["events"] += 1
        if state["last"] != me:
            state["switches"] += 1
            state["last"] = me
            if len(switch_trace) < 2000:
                switch_trace.append((tidx.get(me, -1), code.co_name))
        if r.random() < p:
            state["yields"] += 1
            time.sleep(0)
        return None

    mon.register_callback(TOOL, mon.events.LINE, on_line)
    results = {}
    errors = []
    start = threading.Barrier(T)

    def worker(i):
        tidx[threading.get_ident()] = i
        rngs[threading.get_ident()] = random.Random(f"yield/{seed}/{i}")
        r = random.Random(f"order/{seed}/{i}")
        order = [o for o in ops if only_kinds is None or o["op"] in only_kinds]
        r.shuffle(order)
        if only_kinds is not None:
            order = order[:per_thread or 2]
        elif per_thread and per_thread < len(order):
            # keep the workload parser-heavy: the shared ANTLR cache is what concurrent callers actually share
            parses = [o for o in order if o["op"] in ("parse", "norm")][: per_thread // 2]
            rest = [o for o in order if o not in parses][: per_thread - len(parses)]
            order = parses + rest
            r.shuffle(order)
        start.wait()
        out = []
        for op in order:
            try:
                out.append((op["id"], digest(execute(op))))
            except BaseException as e:  # noqa
                errors.append(f"{type(e).__name__}: {e}")
        results[i] = out

    sys.setswitchinterval(1e-6)
    threads = [threading.Thread(target=worker, args=(i,)) for i in range(T)]
    mon.set_events(TOOL, mon.events.LINE)
    t0 = time.time()
    for t in threads:
        t.start()
    for t in threads:
        t.join()
    mon.set_events(TOOL, 0)
    mism = []
    executed = 0
    byid = {o["id"]: o for o in ops}
    for i, out in results.items():
        for oid, d in out:
            executed += 1
            if d != table[oid]:
                mism.append({"op": oid, "kind": byid[oid]["op"], "thread": i, "input": byid[oid]["input"][:300]})
    alternations = sum(1 for a, b in zip(fills, fills[1:]) if a[0] != b[0])
    sig = digest(repr(fills) + repr(switch_trace[:2000]))
    return {"executed": executed, "mismatches": mism[:20], "n_mismatch": len(mism), "errors": errors[:5], "threads": T, "line_events": state["events"],
            "context_switches_observed": state["switches"], "yields_injected": state["yields"], "cache_fills": len(fills),
            "threads_that_filled_cache": len({f[0] for f in fills}), "fill_alternations": alternations, "fill_signature": sig, "wall_s": round(time.time() - t0, 2)}


def mode_preempt(ops, table, op_id, k):
    """Systematic schedule: thread A runs the operation and is suspended at its k-th library source line; thread B then runs the same
    operation from start to end; A resumes. (One pre-emption at every possible line, in a fresh process: lazy one-time initialisation,
    shared module state.) Returns both results compared with the table."""
    op = next(o for o in ops if o["id"] == op_id)
    mon = sys.monitoring
    TOOL = 3
    mon.use_tool_id(TOOL, "rv-c14-preempt")
    keep = os.sep + "tucan" + os.sep
    state = {"count": 0, "a": None, "suspended_at": None}
    b_start, b_done = threading.Event(), threading.Event()

    def on_line(code, line):
        if keep not in code.co_filename or os.path.basename(code.co_filename) in ("tucanParser.py", "tucanLexer.py", "tucanListener.py"):
            return mon.DISABLE  # hand-written library code only (the generated recogniser is swept by the yield-injection runs)
        if threading.get_ident() != state["a"]:
            return None
        state["count"] += 1
        if state["count"] == k:
            state["suspended_at"] = f"{os.path.basename(code.co_filename)}:{line}"
            b_start.set()
            b_done.wait(timeout=60)
        return None

    res = {}

    def run_a():
        state["a"] = threading.get_ident()
        res["a"] = digest(execute(op))
        b_start.set()  # if A had fewer than k lines, let B go now

    def run_b():
        b_start.wait(timeout=60)
        res["b"] = digest(execute(op))
        b_done.set()

    mon.register_callback(TOOL, mon.events.LINE, on_line)
    ta, tb = threading.Thread(target=run_a), threading.Thread(target=run_b)
    mon.set_events(TOOL, mon.events.LINE)
    tb.start(); ta.start()
    ta.join(); tb.join()
    mon.set_events(TOOL, 0)
    want = table[op_id]
    return {"lines_in_a": state["count"], "suspended_at": state["suspended_at"], "a_ok": res.get("a") == want, "b_ok": res.get("b") == want, "k": k}


def mode_preempt_sweep(ops, table, op_id, k_first, k_step):
    """All single-pre-emption schedules k = k_first, k_first+k_step, ... of one operation, each in a FORKED child of this process, which has
    imported the library but never called it: every child starts from the same cold state as a fresh interpreter (lazy initialisation not yet
    done, parser caches empty) at a fraction of the start-up cost."""
    import select
    results, k, L = [], k_first, None
    while L is None or k <= L:
        rfd, wfd = os.pipe()
        pid = os.fork()
        if pid == 0:
            try:
                os.close(rfd)
                out = mode_preempt(ops, table, op_id, k)
                os.write(wfd, json.dumps(out).encode())
            finally:
                os._exit(0)
        os.close(wfd)
        buf = b""
        ready, _, _ = select.select([rfd], [], [], 120)
        if ready:
            while True:
                chunk = os.read(rfd, 65536)
                if not chunk:
                    break
                buf += chunk
        else:
            os.kill(pid, 9)
        os.close(rfd)
        os.waitpid(pid, 0)
        if not buf:
            results.append({"k": k, "a_ok": False, "b_ok": False, "suspended_at": "child died or hung", "lines_in_a": L or 0})
            if L is None:
                break
        else:
            r = json.loads(buf)
            L = r["lines_in_a"] if L is None else L
            results.append(r)
        k += k_step
    bad = [r for r in results if not (r["a_ok"] and r["b_ok"])]
    return {"schedules": len(results), "lines_in_operation": L, "failing": bad[:10], "n_failing": len(bad)}


def main():
    ops = json.load(open(sys.argv[1]))
    mode = sys.argv[2]
    if mode == "table":
        out = mode_table(ops)
    elif mode == "history":
        out = mode_history(ops, json.load(open(sys.argv[3])), sys.argv[4], int(sys.argv[5]))
    elif mode == "preempt_sweep":
        out = mode_preempt_sweep(ops, json.load(open(sys.argv[3])), sys.argv[4], int(sys.argv[5]), int(sys.argv[6]))
    elif mode == "preempt":
        out = mode_preempt(ops, json.load(open(sys.argv[3])), sys.argv[4], int(sys.argv[5]))
    elif mode == "coldstart":
        # the FIRST library calls of a fresh process come from several threads at once (lazy one-time initialisation is where this matters)
        out = mode_threads(ops, json.load(open(sys.argv[3])), sys.argv[4], int(sys.argv[5]), float(sys.argv[6]), 2, only_kinds=("read", "ser_text", "parse"), tucan_only=True)
    elif mode == "threads":
        out = mode_threads(ops, json.load(open(sys.argv[3])), sys.argv[4], int(sys.argv[5]), float(sys.argv[6]), int(sys.argv[7]) if len(sys.argv) > 7 else 0)
    json.dump(out, sys.stdout)


if __name__ == "__main__":
    main()
