"""TUCAN string generators: meaning-preserving respellings (C11/C05) and token-level mutations (C10)."""
from __future__ import annotations
import random

from ..oracles import tucan_grammar as tg
from ..oracles.elements import SYMBOLS_BY_Z, Z, hill_order


def emit(formula_items, tuples, blocks, force_third=False):
    f = "".join(sym + (str(c) if c > 1 else "") for sym, c in formula_items)
    t = "".join(f"({a}-{b})" for a, b in tuples)
    out = f + "/" + t
    if blocks or force_third:
        out += "/" + "".join("(" + str(i) + ":" + ",".join(f"{k}={v}" for k, v in props) + ")" for i, props in blocks)
    return out


def respell(s: str, rng: random.Random, obs: dict | None = None):
    """A different spelling of the same molecule. Returns (string, list of transformations applied)."""
    g = tg.reference_read(s)
    tuples = list(g.tuples_raw)
    blocks = [(i, list(p)) for i, p in g.attr_blocks_raw]
    applied = []
    n = len(g.elements)
    # renumber atoms within each element block
    if rng.random() < 0.7 and n >= 2:
        perm = list(range(n + 1))  # 1-based
        start = 0
        changed = False
        while start < n:
            end = start
            while end < n and g.elements[end] == g.elements[start]:
                end += 1
            idx = list(range(start + 1, end + 1))
            img = list(idx)
            rng.shuffle(img)
            for a, b in zip(idx, img):
                perm[a] = b
                changed |= a != b
            start = end
        if changed:
            tuples = [(perm[a], perm[b]) for a, b in tuples]
            blocks = [(perm[i], p) for i, p in blocks]
            applied.append("renumber-within-blocks")
    if tuples and rng.random() < 0.8:
        rng.shuffle(tuples)
        applied.append("tuple-permutation")
    if tuples and rng.random() < 0.8:
        tuples = [(b, a) if rng.random() < 0.5 else (a, b) for a, b in tuples]
        applied.append("endpoint-swap")
    if tuples and rng.random() < 0.4:
        for _ in range(rng.randint(1, 3)):
            a, b = rng.choice(tuples)
            if rng.random() < 0.5:
                a, b = b, a
            tuples.insert(rng.randint(0, len(tuples)), (a, b))
        applied.append("tuple-repetition")
    if blocks and rng.random() < 0.6:
        new = []
        for i, p in blocks:
            if len(p) >= 2 and rng.random() < 0.7:
                new.extend((i, [kv]) for kv in p)
                applied.append("block-split") if "block-split" not in applied else None
            else:
                new.append((i, p))
        blocks = new
    if blocks and rng.random() < 0.7:
        rng.shuffle(blocks)
        applied.append("block-permutation")
    if blocks and rng.random() < 0.6:
        b2 = []
        for i, p in blocks:
            if len(p) >= 2 and rng.random() < 0.7:
                p = list(reversed(p))
                applied.append("key-order-swap") if "key-order-swap" not in applied else None
            b2.append((i, p))
        blocks = b2
    force_third = False
    if not blocks and rng.random() < 0.15:
        force_third = True
        applied.append("empty-third-section")
    out = emit(g.formula_items, tuples, blocks, force_third)
    if obs is not None:
        for a in applied:
            obs[a] = obs.get(a, 0) + 1
    return out, applied


def random_formula(rng: random.Random, max_symbols=6, max_atoms=40):
    k = rng.randint(1, max_symbols)
    if rng.random() < 0.5:
        from .mols import PREFIX_FAMILIES
        fam = rng.choice(PREFIX_FAMILIES)
        syms = set(rng.sample(fam, min(len(fam), rng.randint(1, k))))
    else:
        syms = set()
    while len(syms) < k:
        syms.add(rng.choice(SYMBOLS_BY_Z) if rng.random() < 0.5 else rng.choice(["C", "H", "N", "O", "Cl", "S"]))
    items = []
    total = 0
    for s in hill_order(syms):
        c = rng.choice([1, 1, 1, 2, 2, 3, 4, 9, 10, 11, 12, 99, 100, 101] if max_atoms >= 300 else [1, 1, 1, 2, 2, 3, 4, 9, 10, 11, 12])
        if total + c > max_atoms:
            c = 1
        total += c
        items.append((s, c))
    return items


def random_sentence(rng: random.Random, max_atoms=40):
    """A valid TUCAN sentence (not necessarily canonical)."""
    items = random_formula(rng, max_atoms=max_atoms)
    n = sum(c for _, c in items)
    tuples = []
    for _ in range(rng.randint(0, min(2 * n, 30))):
        if n < 2:
            break
        a, b = rng.sample(range(1, n + 1), 2)
        tuples.append((a, b))
    blocks = []
    used = {}
    for _ in range(rng.randint(0, 4)):
        i = rng.randint(1, n)
        keys = [k for k in ("mass", "rad") if k not in used.get(i, set())]
        if not keys:
            continue
        rng.shuffle(keys)
        take = keys[: rng.randint(1, len(keys))]
        used.setdefault(i, set()).update(take)
        blocks.append((i, [(k, rng.choice([1, 2, 3, 9, 10, 13, 99, 100, 238])) for k in take]))
    return emit(items, tuples, blocks, force_third=(not blocks and rng.random() < 0.1))


TOKEN_ALPHABET = (list(SYMBOLS_BY_Z) + [str(d) for d in range(10)] + ["10", "11", "99", "100"] +
                  ["(", ")", "-", ":", ",", "=", "/", "mass", "rad"] + [" ", "\n", "\t", "c", "h", "x", "m", "r", "–", "−", "０", "١"])


def tokenize_loose(s):
    """Split into tokens for mutation purposes (valid or not)."""
    import re
    return re.findall(r"[A-Z][a-z]?|mass|rad|[0-9]+|.", s, flags=re.S)


def mutate(s: str, rng: random.Random):
    """One single-token insertion / deletion / replacement / transposition. Returns (string, kind)."""
    toks = tokenize_loose(s)
    kind = rng.choice(["insert", "delete", "replace", "transpose", "digit", "boundary"])
    if not toks:
        kind = "insert"
    if kind == "insert":
        toks.insert(rng.randint(0, len(toks)), rng.choice(TOKEN_ALPHABET))
    elif kind == "delete":
        del toks[rng.randrange(len(toks))]
    elif kind == "replace":
        toks[rng.randrange(len(toks))] = rng.choice(TOKEN_ALPHABET)
    elif kind == "transpose" and len(toks) >= 2:
        i = rng.randrange(len(toks) - 1)
        toks[i], toks[i + 1] = toks[i + 1], toks[i]
    elif kind == "digit":
        nums = [i for i, t in enumerate(toks) if t.isdigit()]
        if nums:
            i = rng.choice(nums)
            toks[i] = rng.choice(["0", "1", "01", "00", str(int(toks[i]) + 1), str(max(0, int(toks[i]) - 1)), toks[i] + "0", "1" + toks[i]])
        else:
            toks.insert(rng.randint(0, len(toks)), rng.choice(["0", "1", "2"]))
    else:  # boundary classes
        choice = rng.choice(["selfbond", "dup-attr", "dup-attr-same", "n+1", "n+1-first", "repeat-tuple", "trailing-slash", "empty-formula", "swap-formula",
                             "count-one", "count-zero", "leading-zero", "rotate-formula", "lowercase-tail", "carbon-late"])
        try:
            g = tg.reference_read(s)
        except tg.Reject:
            return s + "/", "boundary:trailing-slash"
        n = len(g.elements)
        tuples, blocks, items = list(g.tuples_raw), [(i, list(p)) for i, p in g.attr_blocks_raw], list(g.formula_items)
        if choice == "selfbond" and n:
            i = rng.randint(1, n)
            tuples.insert(rng.randint(0, len(tuples)), (i, i))
        elif choice == "dup-attr" and n:
            i = rng.randint(1, n)
            k = rng.choice(["mass", "rad"])
            if rng.random() < 0.5:
                blocks.append((i, [(k, 2), (k, 3)]))
            else:
                blocks.append((i, [(k, 2)])); blocks.insert(0, (i, [(k, 2)]))
        elif choice == "dup-attr-same" and n:
            i = rng.randint(1, n)
            k = rng.choice(["mass", "rad"])
            blocks.append((i, [(k, 2), (k, 2)] if rng.random() < 0.5 else [(k, 2), ("rad" if k == "mass" else "mass", 3), (k, 2)]))
        elif choice == "n+1":
            if rng.random() < 0.5:
                tuples.append((rng.randint(1, max(1, n)), n + 1))
            else:
                blocks.append((n + 1, [("mass", 2)]))
        elif choice == "n+1-first":
            # the out-of-range index as FIRST endpoint, and not in the last / lexicographically largest tuple
            tuples.insert(0, (n + 1, rng.randint(1, max(1, n))))
            if n >= 2:
                tuples.append((n, n - 1))
        elif choice in ("count-one", "count-zero", "leading-zero") and items:
            k = rng.randrange(len(items))
            sym, cnt = items[k]
            lit = {"count-one": "1", "count-zero": "0", "leading-zero": "0" + str(max(cnt, 2))}[choice]
            f = "".join(x + (lit if j == k else (str(c) if c > 1 else "")) for j, (x, c) in enumerate(items))
            rest = emit([], tuples, blocks)
            return f + rest, f"boundary:{choice}"
        elif choice == "rotate-formula" and len(items) >= 3:
            k = rng.randrange(1, len(items))
            items = items[k:] + items[:k]  # alphabetical-with-carbon and other multi-symbol order slips
        elif choice == "carbon-late" and any(x == "C" for x, _ in items) and len(items) >= 2:
            c_item = next(it for it in items if it[0] == "C")
            others = sorted((it for it in items if it[0] != "C"), key=lambda it: it[0])
            items = sorted(others + [c_item], key=lambda it: it[0])  # strictly alphabetical although carbon is present
        elif choice == "lowercase-tail" and items:
            k = rng.randrange(len(items))
            sym, cnt = items[k]
            tail = rng.choice("lsonadeiru")
            f = "".join((x + tail if j == k and len(x) == 1 else x) + (str(c) if c > 1 else "") for j, (x, c) in enumerate(items))
            return f + emit([], tuples, blocks), f"boundary:{choice}"
        elif choice == "repeat-tuple" and tuples:
            tuples.append(rng.choice(tuples))
        elif choice == "trailing-slash":
            return s + "/", "boundary:trailing-slash"
        elif choice == "empty-formula":
            return emit([], tuples if rng.random() < 0.5 else [], []), "boundary:empty-formula"
        elif choice == "swap-formula" and len(items) >= 2:
            i = rng.randrange(len(items) - 1)
            items[i], items[i + 1] = items[i + 1], items[i]
        out = emit(items, tuples, blocks)
        return out, (f"boundary:{choice}" if out != s else "noop")
    out = "".join(toks)
    return out, (kind if out != s else "noop")
