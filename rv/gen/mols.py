"""Workload generators: abstract molecules (rv.oracles.ctab.Mol) by class, relabelling, near-miss pairs."""
from __future__ import annotations
import itertools
import random

from ..oracles.ctab import Atom, Mol
from ..oracles.elements import SYMBOLS_BY_Z

ORGANIC = ["C"] * 10 + ["H"] * 6 + ["N"] * 3 + ["O"] * 3 + ["S", "P", "F", "Cl", "Br", "I", "B", "Si", "Se", "Na", "Fe"]
PREFIX_FAMILIES = [
    ["C", "Ca", "Cd", "Ce", "Cf", "Cl", "Cm", "Cn", "Co", "Cr", "Cs", "Cu"],
    ["H", "He", "Hf", "Hg", "Ho", "Hs"],
    ["N", "Na", "Nb", "Nd", "Ne", "Nh", "Ni", "No", "Np"],
    ["B", "Ba", "Be", "Bh", "Bi", "Bk", "Br"],
    ["S", "Sb", "Sc", "Se", "Sg", "Si", "Sm", "Sn", "Sr"],
    ["P", "Pa", "Pb", "Pd", "Pm", "Po", "Pr", "Pt", "Pu"],
    ["O", "Og", "Os"], ["F", "Fe", "Fl", "Fm", "Fr"], ["I", "In", "Ir"], ["K", "Kr"], ["Y", "Yb"],
    ["U", "V", "W", "Xe", "Zn", "Zr"],
]


def _unique_coords(mol: Mol, rng: random.Random, decimals=4, span=50.0):
    seen = set()
    for k, a in enumerate(mol.atoms):
        while True:
            c = tuple(round(rng.uniform(-span, span), decimals) for _ in range(3))
            if c not in seen:
                seen.add(c)
                break
        a.x, a.y, a.z = c
        a.tag = k
    return mol


def decorate(mol: Mol, rng: random.Random, p_label=0.15, p_chg=0.1, bond_types=True):
    """Random isotopes/radicals/charges/bond types on a skeleton."""
    for a in mol.atoms:
        if rng.random() < p_label:
            a.mass = rng.choice([1, 2, 3, 13, 14, 15, 18, 35, 37, 99, 238])
        if rng.random() < p_label:
            a.rad = rng.choice([1, 2, 3])
        if rng.random() < p_chg:
            a.chg = rng.choice([-3, -2, -1, 1, 2, 3, 4, -15, 15])
    if bond_types:
        mol.bonds = [(i, j, rng.choice([1, 1, 1, 2, 2, 3, 4, 5, 8, 9, 10])) for i, j, _ in mol.bonds]
    return mol


def from_edges(n, edges, sym="C", cls="", name=""):
    return Mol([Atom(sym) for _ in range(n)], [(a, b, 1) for a, b in edges], name, cls)


# ---------------------------------------------------------------- M1 exhaustive small

def all_small(n, palette):
    """All labelled simple graphs on n vertices x all colourings from palette. Yields Mol."""
    pairs = list(itertools.combinations(range(n), 2))
    for mask in range(1 << len(pairs)):
        edges = [p for k, p in enumerate(pairs) if mask >> k & 1]
        for colouring in itertools.product(range(len(palette)), repeat=n):
            atoms = []
            for c in colouring:
                sym, mass, rad = palette[c]
                atoms.append(Atom(sym, 0, rad, mass))
            yield Mol(atoms, [(a, b, 1) for a, b in edges], f"small{n}-{mask}-{colouring}", "M1")


PALETTE3 = [("C", 0, 0), ("C", 13, 0), ("C", 0, 2)]
PALETTE3B = [("C", 0, 0), ("N", 0, 0), ("C", 13, 2)]


# ---------------------------------------------------------------- M2 random organic-like

def random_organic(rng: random.Random, nmin=1, nmax=40):
    n = rng.randint(nmin, nmax)
    atoms = [Atom(rng.choice(ORGANIC)) for _ in range(n)]
    bonds = set()
    comps = 1 if (rng.random() < 0.8 or n < 2) else rng.randint(2, min(4, n))
    # random forest with `comps` roots then ring closures
    order = list(range(n))
    rng.shuffle(order)
    roots = order[:comps]
    placed = list(roots)
    for v in order[comps:]:
        u = rng.choice(placed)
        bonds.add((min(u, v), max(u, v)))
        placed.append(v)
    for _ in range(rng.randint(0, max(0, n // 5))):
        if n >= 3:
            u, v = rng.sample(range(n), 2)
            bonds.add((min(u, v), max(u, v)))
    mol = Mol(atoms, [(a, b, 1) for a, b in sorted(bonds)], f"org{n}", "M2")
    decorate(mol, rng)
    return _unique_coords(mol, rng)


# ---------------------------------------------------------------- M3 symmetric skeletons

def cycle(n):
    if n < 3:
        return path(n)
    return n, [(i, (i + 1) % n) for i in range(n)]


def path(n):
    return n, [(i, i + 1) for i in range(n - 1)]


def complete(n):
    return n, list(itertools.combinations(range(n), 2))


def complete_bipartite(a, b):
    return a + b, [(i, a + j) for i in range(a) for j in range(b)]


def prism(n):
    e = [(i, (i + 1) % n) for i in range(n)] + [(n + i, n + (i + 1) % n) for i in range(n)] + [(i, n + i) for i in range(n)]
    return 2 * n, e


def hypercube(d):
    n = 1 << d
    return n, [(v, v ^ (1 << k)) for v in range(n) for k in range(d) if v < v ^ (1 << k)]


def petersen():
    e = [(i, (i + 1) % 5) for i in range(5)] + [(5 + i, 5 + (i + 2) % 5) for i in range(5)] + [(i, i + 5) for i in range(5)]
    return 10, e


def dodecahedron():
    import networkx as nx
    g = nx.dodecahedral_graph()
    return g.number_of_nodes(), list(g.edges())


def paley13():
    q = {(x * x) % 13 for x in range(1, 13)}
    return 13, [(a, b) for a in range(13) for b in range(a + 1, 13) if (b - a) % 13 in q]


def rook4():
    idx = lambda r, c: 4 * r + c
    e = set()
    for r in range(4):
        for c in range(4):
            for c2 in range(c + 1, 4):
                e.add((idx(r, c), idx(r, c2)))
            for r2 in range(r + 1, 4):
                e.add((idx(r, c), idx(r2, c)))
    return 16, sorted(e)


def shrikhande():
    idx = lambda a, b: 4 * (a % 4) + (b % 4)
    e = set()
    for a in range(4):
        for b in range(4):
            for da, db in ((1, 0), (0, 1), (1, 1)):
                u, v = idx(a, b), idx(a + da, b + db)
                e.add((min(u, v), max(u, v)))
    return 16, sorted(e)


def kn_minus_matching(n):
    e = set(itertools.combinations(range(n), 2))
    for i in range(0, n - 1, 2):
        e.discard((i, i + 1))
    return n, sorted(e)


def disjoint_copies(frag, k):
    n, e = frag
    return n * k, [(a + c * n, b + c * n) for c in range(k) for a, b in e]


def cubane():
    return hypercube(3)


SKELETONS = {
    "cycle5": lambda: cycle(5), "cycle6": lambda: cycle(6), "cycle8": lambda: cycle(8), "cycle12": lambda: cycle(12),
    "K4": lambda: complete(4), "K5": lambda: complete(5), "K6": lambda: complete(6),
    "K33": lambda: complete_bipartite(3, 3), "K24": lambda: complete_bipartite(2, 4), "K44": lambda: complete_bipartite(4, 4),
    "prism3": lambda: prism(3), "prism5": lambda: prism(5), "prism6": lambda: prism(6),
    "Q3": lambda: hypercube(3), "Q4": lambda: hypercube(4), "petersen": petersen, "dodecahedron": dodecahedron,
    "paley13": paley13, "rook4": rook4, "shrikhande": shrikhande,
    "K6-M": lambda: kn_minus_matching(6), "K8-M": lambda: kn_minus_matching(8),
    "3xC3": lambda: disjoint_copies(cycle(3), 3), "2xC6": lambda: disjoint_copies(cycle(6), 2),
    "4xP2": lambda: disjoint_copies(path(2), 4), "2xK4": lambda: disjoint_copies(complete(4), 2),
    "C6+2C3": lambda: (12, cycle(6)[1] + [(a + 6, b + 6) for a, b in disjoint_copies(cycle(3), 2)[1]]),
    "star6": lambda: (7, [(0, i) for i in range(1, 7)]),
    "path7": lambda: path(7),
}

ORBIT_LABELS = [("C", 13, 0), ("C", 0, 2), ("N", 0, 0), ("C", 13, 2), ("C", 14, 0), ("C", 0, 1)]


def symmetric(rng: random.Random, name=None):
    name = name or rng.choice(sorted(SKELETONS))
    n, edges = SKELETONS[name]()
    mol = from_edges(n, edges, "C", "M3", name)
    k = rng.randint(0, 3)
    for v in rng.sample(range(n), min(k, n)):
        sym, mass, rad = rng.choice(ORBIT_LABELS)
        a = mol.atoms[v]
        a.sym, a.mass, a.rad = sym, mass, rad
    mol.name = f"{name}+{k}"
    if rng.random() < 0.5:
        mol.bonds = [(i, j, rng.choice([1, 2, 4])) for i, j, _ in mol.bonds]
    return _unique_coords(mol, rng)


def polycyclic(rng: random.Random):
    """Hydrogen-free compact polycyclic skeleton (fused/spiro/bridged small rings, degree <= 4): refinement depth is large relative to n."""
    n = rng.randint(6, 16)
    atoms = [Atom("C") for _ in range(n)]
    deg = [0] * n
    bonds = set()
    # random spanning path/tree biased to chains, then ring closures between near atoms
    for v in range(1, n):
        u = v - 1 if rng.random() < 0.75 else rng.randrange(v)
        if deg[u] >= 4:
            u = min(range(v), key=lambda w: deg[w])
        bonds.add((u, v)); deg[u] += 1; deg[v] += 1
    for _ in range(rng.randint(1, 4)):
        u = rng.randrange(n)
        v = u + rng.choice([2, 3, 4, 5])
        if v < n and (u, v) not in bonds and deg[u] < 4 and deg[v] < 4:
            bonds.add((u, v)); deg[u] += 1; deg[v] += 1
    mol = Mol(atoms, [(a, b, 1) for a, b in sorted(bonds)], f"poly{n}", "M9")
    if rng.random() < 0.3:
        a = mol.atoms[rng.randrange(n)]
        a.sym = rng.choice(["N", "O"])
    if rng.random() < 0.3:
        mol.atoms[rng.randrange(n)].mass = 13
    return _unique_coords(mol, rng)


def deep_refinement(rng: random.Random, steps=80):
    """Small hydrogen-free skeleton searched (hill climbing over edge toggles, degree <= 4) for a LARGE number of colour-refinement
    rounds relative to its size: the class of inputs where 'refinement ran to the fixed point' is actually exercised."""
    from ..oracles import iso
    mol = polycyclic(rng)
    n = len(mol.atoms)
    es = {(min(a, b), max(a, b)) for a, b, _ in mol.bonds}
    cols = mol.colors()
    best = iso.refinement_rounds(cols, es)
    for _ in range(steps):
        a, b = rng.sample(range(n), 2)
        e = (min(a, b), max(a, b))
        new = set(es)
        if e in new:
            new.discard(e)
        else:
            new.add(e)
        deg = [0] * n
        for x, y in new:
            deg[x] += 1; deg[y] += 1
        if max(deg) > 4 or min(deg) == 0:
            continue
        r = iso.refinement_rounds(cols, new)
        if r >= best:
            best, es = r, new
    mol.bonds = [(a, b, 1) for a, b in sorted(es)]
    mol.name = f"deep{n}r{best}"
    mol.cls = "M9"
    return mol


def mixed_hydrogens(rng: random.Random):
    """Heavy-atom skeleton (often symmetric) whose atoms carry terminal hydrogens of MIXED isotopes/radical states (CH2D, CHDT, NHD, ...),
    with twin atoms carrying the same multiset: sequences of equal neighbours are where order dependence hides."""
    kind = rng.choice(["pair", "ring", "chain", "star", "two-waters"])
    if kind == "two-waters":
        heavy, hb = [Atom("O"), Atom("O")], []
        patterns = [[rng.choice([0, 1, 2, 3]), rng.choice([0, 2, 3])] for _ in range(2)]
    else:
        n = {"pair": 2, "ring": rng.randint(3, 6), "chain": rng.randint(3, 5), "star": rng.randint(3, 5)}[kind]
        sym = rng.choice(["C", "C", "N", "Si"])
        heavy = [Atom(sym) for _ in range(n)]
        hb = ([(0, 1)] if kind == "pair" else [(i, (i + 1) % n) for i in range(n)] if kind == "ring" else [(i, i + 1) for i in range(n - 1)] if kind == "chain"
              else [(0, i) for i in range(1, n)])
        base = [rng.choice([0, 0, 1, 2, 3]) for _ in range(rng.randint(2, 3))]  # 1 = explicitly labelled protium
        patterns = []
        for k in range(n):
            pat = list(base) if rng.random() < 0.75 else [rng.choice([0, 1, 2, 3]) for _ in range(rng.randint(1, 3))]
            rng.shuffle(pat)
            patterns.append(pat)
    atoms = list(heavy)
    bonds = [(a, b, 1) for a, b in hb]
    for k, pat in enumerate(patterns):
        for mass in pat:
            h = Atom("H", mass=mass)
            if rng.random() < 0.05:
                h.rad = 2
            atoms.append(h)
            bonds.append((k, len(atoms) - 1, 1))
    # scramble the listing so that equal neighbours appear in different relative orders on twin atoms
    mol = Mol(atoms, bonds, f"hiso-{kind}{len(atoms)}", "M10")
    mol, _ = relabel(mol, rng)
    mol.cls = "M10"
    return _unique_coords(mol, rng)


def hub(rng: random.Random):
    """Metallocene-like: one centre bonded to 10-16 ring atoms with one bond type (star-atom ENDPTS lists with >= 10 entries)."""
    k = rng.randint(10, 16)
    atoms = [Atom(rng.choice(["Fe", "Cr", "U", "Zr"]))] + [Atom("C") for _ in range(k)]
    t = rng.choice([1, 8, 9])
    bonds = [(0, i, t) for i in range(1, k + 1)]
    half = k // 2
    bonds += [(1 + i, 1 + (i + 1) % half, 4) for i in range(half)] + [(1 + half + i, 1 + half + (i + 1) % (k - half), 4) for i in range(k - half)]
    bonds = sorted({(min(a, b), max(a, b), t) for a, b, t in bonds if a != b})
    seen, out = set(), []
    for a, b, t in bonds:
        if (a, b) not in seen:
            seen.add((a, b)); out.append((a, b, t))
    return _unique_coords(Mol(atoms, out, f"hub{k}", "M11"), rng)


def ring_salts(rng: random.Random):
    """Hydrogen-poor multi-fragment molecule: r ring fragments (different sizes, some substituted or fused) plus exactly ONE acyclic fragment,
    so that #bonds == #atoms - 1 although the graph is no tree; plus variants with other ring/fragment balances."""
    atoms, bonds = [], []

    def add_cycle(k, sym="C"):
        off = len(atoms)
        atoms.extend(Atom(sym) for _ in range(k))
        bonds.extend((off + i, off + (i + 1) % k, 1) for i in range(k))
        return off
    r = rng.randint(2, 4)
    for _ in range(r):
        off = add_cycle(rng.randint(3, 7), rng.choice(["C", "C", "C", "N"]))
        if rng.random() < 0.3:  # a pendant atom keeps the fragment unicyclic
            atoms.append(Atom(rng.choice(["C", "O"])))
            bonds.append((off, len(atoms) - 1, 1))
    mode = rng.choice(["balanced", "balanced", "two-trees", "no-tree"])
    n_trees = {"balanced": 1, "two-trees": 2, "no-tree": 0}[mode]
    for _ in range(n_trees):
        k = rng.randint(1, 3)
        off = len(atoms)
        atoms.extend(Atom(rng.choice(["O", "C", "Na", "Cl"])) for _ in range(k))
        bonds.extend((off + i, off + i + 1, 1) for i in range(k - 1))
    if rng.random() < 0.3:
        atoms[rng.randrange(len(atoms))].mass = 13
    mol = Mol(atoms, bonds, f"ringsalt{len(atoms)}-{mode}", "M12")
    mol, _ = relabel(mol, rng)
    mol.cls = "M12"
    return _unique_coords(mol, rng)


# ---------------------------------------------------------------- M4 multi-component

def multi_component(rng: random.Random):
    frags = []
    base = random_organic(rng, 1, 8)
    k = rng.randint(2, 4)
    for c in range(k):
        if rng.random() < 0.5:
            frags.append(base.copy())
        else:
            frags.append(random_organic(rng, 1, 8))
    for _ in range(rng.randint(0, 3)):
        frags.append(Mol([Atom(rng.choice(["Na", "Cl", "H", "C", "K", "O"]))], []))
    atoms, bonds = [], []
    for f in frags:
        off = len(atoms)
        atoms.extend(f.atoms)
        bonds.extend((i + off, j + off, t) for i, j, t in f.bonds)
    mol = Mol(atoms, bonds, f"multi{len(frags)}", "M4")
    return _unique_coords(mol, rng)


# ---------------------------------------------------------------- M5 all-elements formulas

def all_elements(rng: random.Random, nmax_atoms=60):
    fam = rng.choice(PREFIX_FAMILIES)
    k = rng.randint(1, 6)
    syms = set(rng.sample(fam, min(k, len(fam))))
    for _ in range(rng.randint(0, 4)):
        syms.add(rng.choice(SYMBOLS_BY_Z))
    mode = rng.choice(["withC", "noC", "any", "CnoH", "HnoC"])
    if mode == "withC":
        syms |= {"C", "H"}
    elif mode == "noC":
        syms.discard("C")
    elif mode == "CnoH":
        syms.add("C"); syms.discard("H")
    elif mode == "HnoC":
        syms.add("H"); syms.discard("C")
    if not syms:
        syms = {"He"}
    atoms = []
    for s in sorted(syms):
        cnt = rng.choice([1, 1, 2, 2, 3, 9, 10, 11, 12])
        atoms.extend(Atom(s) for _ in range(cnt))
    if len(atoms) > nmax_atoms:
        atoms = rng.sample(atoms, nmax_atoms)
    rng.shuffle(atoms)
    n = len(atoms)
    bonds = set()
    for v in range(1, n):
        if rng.random() < 0.85:
            u = rng.randrange(v)
            bonds.add((u, v))
    for _ in range(rng.randint(0, n // 4)):
        if n >= 2:
            u, v = rng.sample(range(n), 2)
            bonds.add((min(u, v), max(u, v)))
    mol = Mol(atoms, [(a, b, 1) for a, b in sorted(bonds)], f"elem{n}", "M5")
    decorate(mol, rng, p_label=0.2, p_chg=0.05)
    return _unique_coords(mol, rng)


def every_element(rng: random.Random, copies=1):
    atoms = [Atom(s) for s in SYMBOLS_BY_Z for _ in range(copies)]
    rng.shuffle(atoms)
    n = len(atoms)
    bonds = {(rng.randrange(v), v) for v in range(1, n)}
    mol = Mol(atoms, [(a, b, 1) for a, b in sorted(bonds)], f"all118x{copies}", "M5")
    decorate(mol, rng, p_label=0.1, p_chg=0.0)
    return _unique_coords(mol, rng)


# ---------------------------------------------------------------- M7 size families

def family(name: str, n: int) -> Mol:
    if name == "path":
        k, e = path(n); mol = from_edges(k, e)
    elif name == "cycle":
        k, e = cycle(n); mol = from_edges(k, e)
    elif name == "cycle13c":  # large ring with ONE labelled atom: refinement needs n/2 rounds although the skeleton is vertex-transitive
        k, e = cycle(n); mol = from_edges(k, e); mol.atoms[0].mass = 13
    elif name == "ladder":
        h = max(1, n // 2)
        e = [(i, i + 1) for i in range(h - 1)] + [(h + i, h + i + 1) for i in range(h - 1)] + [(i, h + i) for i in range(h)]
        mol = from_edges(2 * h, e)
    elif name == "comb":
        h = max(1, n // 2)
        e = [(i, i + 1) for i in range(h - 1)] + [(i, h + i) for i in range(h)]
        mol = from_edges(2 * h, e)
    elif name == "caterpillar":
        h = max(1, n // 3)
        e = [(i, i + 1) for i in range(h - 1)] + [(i, h + 2 * i) for i in range(h)] + [(i, h + 2 * i + 1) for i in range(h)]
        mol = from_edges(3 * h, e)
    elif name == "star":
        mol = from_edges(n, [(0, i) for i in range(1, n)])
    elif name == "polymer":  # -[CH2-CHCl]-
        units = max(1, n // 6)
        atoms, e = [], []
        prev = None
        for u in range(units):
            c1 = len(atoms); atoms.append(Atom("C"))
            h1 = len(atoms); atoms.append(Atom("H"))
            h2 = len(atoms); atoms.append(Atom("H"))
            c2 = len(atoms); atoms.append(Atom("C"))
            h3 = len(atoms); atoms.append(Atom("H"))
            cl = len(atoms); atoms.append(Atom("Cl"))
            e += [(c1, h1), (c1, h2), (c1, c2), (c2, h3), (c2, cl)]
            if prev is not None:
                e.append((prev, c1))
            prev = c2
        mol = Mol(atoms, [(a, b, 1) for a, b in e])
    elif name == "peptide":  # -[N-C(C)-C(=O)]-
        units = max(1, n // 5)
        atoms, e = [], []
        prev = None
        for u in range(units):
            nn = len(atoms); atoms.append(Atom("N"))
            ca = len(atoms); atoms.append(Atom("C"))
            cb = len(atoms); atoms.append(Atom("C"))
            c = len(atoms); atoms.append(Atom("C"))
            o = len(atoms); atoms.append(Atom("O"))
            e += [(nn, ca), (ca, cb), (ca, c), (c, o)]
            if prev is not None:
                e.append((prev, nn))
            prev = c
        mol = Mol(atoms, [(a, b, 1) for a, b in e])
    elif name == "h2":
        k = max(1, n // 2)
        mol = Mol([Atom("H") for _ in range(2 * k)], [(2 * i, 2 * i + 1, 1) for i in range(k)])
    elif name == "isolated":
        mol = Mol([Atom(SYMBOLS_BY_Z[i % 118]) for i in range(n)], [])
    elif name == "complete":
        k, e = complete(n); mol = from_edges(k, e)
    elif name == "single":
        mol = Mol([Atom("U")], [])
    elif name == "grid":
        w = max(2, int(n ** 0.5))
        e = [(r * w + c, r * w + c + 1) for r in range(w) for c in range(w - 1)] + [(r * w + c, (r + 1) * w + c) for r in range(w - 1) for c in range(w)]
        mol = from_edges(w * w, e)
    elif name == "bintree":
        mol = from_edges(n, [((i - 1) // 2, i) for i in range(1, n)])
    else:
        raise ValueError(name)
    mol.cls = "M7"
    mol.name = f"{name}{len(mol.atoms)}"
    for k, a in enumerate(mol.atoms):
        a.tag = k
        a.x = float(k)
    return mol


# ---------------------------------------------------------------- relabelling

def relabel(mol: Mol, rng: random.Random, perm=None) -> tuple[Mol, list]:
    """Same molecule, atoms renumbered by a random permutation, bond list shuffled, bond endpoints flipped.
    Returns (new mol, perm) with perm[old] = new."""
    n = len(mol.atoms)
    if perm is None:
        perm = list(range(n))
        rng.shuffle(perm)
    atoms = [None] * n
    for old, new in enumerate(perm):
        atoms[new] = mol.atoms[old]
    bonds = []
    for i, j, t in mol.bonds:
        a, b = perm[i], perm[j]
        if rng.random() < 0.5:
            a, b = b, a
        bonds.append((a, b, t))
    rng.shuffle(bonds)
    out = Mol([Atom(a.sym, a.chg, a.rad, a.mass, a.x, a.y, a.z, a.tag) for a in atoms], bonds, mol.name, mol.cls)
    return out, perm


# ---------------------------------------------------------------- M8 near-miss pairs

def edge_switch(mol: Mol, rng: random.Random):
    """Degree-preserving 2-switch; returns a new Mol or None."""
    es = {(min(i, j), max(i, j)) for i, j, _ in mol.bonds}
    bl = sorted(es)
    for _ in range(30):
        if len(bl) < 2:
            return None
        (a, b), (c, d) = rng.sample(bl, 2)
        if rng.random() < 0.5:
            c, d = d, c
        if len({a, b, c, d}) < 4:
            continue
        n1, n2 = (min(a, c), max(a, c)), (min(b, d), max(b, d))
        if n1 in es or n2 in es:
            continue
        new = (es - {(a, b), (min(c, d), max(c, d))}) | {n1, n2}
        out = mol.copy()
        out.bonds = [(x, y, 1) for x, y in sorted(new)]
        out.name += "~switch"
        return out
    return None


def move_label(mol: Mol, rng: random.Random):
    """Move an isotope/radical label to another atom of the same element (may or may not be equivalent)."""
    lab = [k for k, a in enumerate(mol.atoms) if a.mass or a.rad]
    if not lab:
        return None
    k = rng.choice(lab)
    a = mol.atoms[k]
    cands = [j for j, b in enumerate(mol.atoms) if j != k and b.sym == a.sym and not (b.mass or b.rad)]
    if not cands:
        return None
    j = rng.choice(cands)
    out = mol.copy()
    out.atoms[j].mass, out.atoms[j].rad = a.mass, a.rad
    out.atoms[k].mass, out.atoms[k].rad = 0, 0
    out.name += "~moved"
    return out


def swap_mass_rad(mol: Mol, rng: random.Random):
    lab = [k for k, a in enumerate(mol.atoms) if (a.mass or a.rad) and a.mass != a.rad]
    if not lab:
        return None
    out = mol.copy()
    k = rng.choice(lab)
    out.atoms[k].mass, out.atoms[k].rad = mol.atoms[k].rad, mol.atoms[k].mass
    if out.atoms[k].rad > 3:
        return None
    out.name += "~massrad"
    return out


def cfi_pair(base_edges, n_base, twist: bool):
    """Cai-Furer-Immerman construction over a base graph (degree <= 3 recommended); twist one edge."""
    import itertools as it
    adj = {v: [] for v in range(n_base)}
    for a, b in base_edges:
        adj[a].append(b); adj[b].append(a)
    nodes = {}
    edges = []

    def nid(key):
        if key not in nodes:
            nodes[key] = len(nodes)
        return nodes[key]

    for a, b in base_edges:
        for bit in (0, 1):
            nid(("e", a, b, bit))
    tw = tuple(base_edges[0]) if twist else None
    for v in range(n_base):
        nb = adj[v]
        for k in range(0, len(nb) + 1, 2):
            for sub in it.combinations(nb, k):
                m = nid(("m", v, sub))
                for u in nb:
                    a, b = (v, u) if (v, u) in [tuple(e) for e in base_edges] else (u, v)
                    bit = 1 if u in sub else 0
                    if tw == (a, b) and v == a:
                        bit ^= 1
                    edges.append((m, nid(("e", a, b, bit))))
    return len(nodes), sorted({(min(x, y), max(x, y)) for x, y in edges})
