"""Runs one shard of one property's workload in its own process. Started as a script file from a neutral cwd:
    python /verif/rv/worker.py '<job json>'
"""
import faulthandler
import importlib
import json
import os
import sys
import traceback

faulthandler.enable()
HERE = os.path.dirname(os.path.dirname(os.path.abspath(__file__)))
sys.path.insert(0, HERE)
sys.path.insert(1, os.path.join(HERE, ".deps"))


def main():
    job = json.loads(sys.argv[1])
    os.environ["TUCAN_VERIF"] = "1"
    os.environ["TUCAN_VERIF_REPO"] = job["repo"]
    from rv import bridge
    from rv.core import Ctx, MonitorViolation
    out = {"ok": False}
    ctx = None
    try:
        bridge.import_tucan(job["repo"])
        ctx = Ctx(job["prop"], job["tier"], job["seed"], job["shard"], job["nshards"], job["repo"])
        ctx.budget_s = job.get("budget_s")
        ctx.params = job.get("params", {})
        ctx.events_path = job["out"] + ".events"
        ctx.partial_path = job["out"] + ".partial"
        mod = importlib.import_module(f"rv.props.{job['prop'].lower()}")
        if job.get("replay") is not None:
            mod.replay(ctx, job["replay"])
        else:
            mod.run(ctx)
        out = ctx.result()
        out["ok"] = True
    except BaseException as e:
        # the shard is lost (-> inconclusive), but what it had already observed (violations, counters) is not
        out = ctx.result() if ctx is not None else {}
        out.update({"ok": False, "partial": ctx is not None, "error": str(e) if isinstance(e, RuntimeError) else f"{type(e).__name__}: {e}", "trace": traceback.format_exc()})
    with open(job["out"], "w") as f:
        json.dump(out, f, default=str)
    return 0


if __name__ == "__main__":
    sys.exit(main())
