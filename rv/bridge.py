"""Glue between the harness's abstract molecules and the real tucan code under monitoring."""
from __future__ import annotations
import os
import sys
import random

TAG = "_rv_tag"
BTAG = "_rv_btag"

_tucan = None


def import_tucan(repo=None):
    """Import tucan from the tree under monitoring and assert that this is what was imported."""
    global _tucan
    if _tucan is not None:
        return _tucan
    repo = os.path.realpath(repo or os.environ.get("TUCAN_VERIF_REPO", "/repo"))
    if repo not in [os.path.realpath(p) for p in sys.path[:1]]:
        sys.path.insert(0, repo)
    import tucan  # noqa
    got = os.path.realpath(tucan.__file__)
    if not got.startswith(repo + os.sep):
        raise RuntimeError(f"INCONCLUSIVE wrong tree imported: {got} not under {repo}")
    import tucan.canonicalization, tucan.serialization, tucan.graph_utils, tucan.io, tucan.parser.parser  # noqa
    import tucan.io.molfile_reader, tucan.io.molfile_writer  # noqa
    try:
        import tucan.test_utils  # noqa  (a helper module; the monitors do not depend on it)
    except Exception:
        pass
    _tucan = tucan
    return tucan


def atom_attrs(a, tag=True):
    from .oracles.elements import Z
    d = {"element_symbol": a.sym, "atomic_number": Z[a.sym], "partition": 0,
         "x_coord": float(a.x), "y_coord": float(a.y), "z_coord": float(a.z)}
    if a.chg:
        d["chg"] = a.chg
    if a.mass:
        d["mass"] = a.mass
    if a.rad:
        d["rad"] = a.rad
    if tag:
        d[TAG] = a.tag
    return d


def graph_direct(mol, tag=True):
    """Build the nx graph through the library's own constructor (graph_from_molecule):
    node label = position in mol.atoms; node/edge insertion order = listing order."""
    import tucan.graph_utils as gu
    if not hasattr(gu, "graph_from_molecule"):
        return _graph_via_text(mol, tag)  # the constructor was refactored away: enter through the public reader instead
    attrs = {k: atom_attrs(a, tag) for k, a in enumerate(mol.atoms)}
    bonds = {}
    for bi, (i, j, t) in enumerate(mol.bonds):
        d = {"bond_type": t}
        if tag:
            ti, tj = mol.atoms[i].tag, mol.atoms[j].tag
            d[BTAG] = f"{min(ti, tj)}-{max(ti, tj)}"
        bonds[(i, j)] = d
    return gu.graph_from_molecule(attrs, bonds)


def _graph_via_text(mol, tag=True):
    import tucan.io.molfile_reader as mr
    from .oracles import ctab
    g = mr.graph_from_molfile_text(ctab.render_v3000(mol, ctab.V3Style(), random.Random(0)))
    if tag:
        for k, a in enumerate(mol.atoms):
            g.nodes[k][TAG] = a.tag
        for u, v, d in g.edges(data=True):
            tu, tv = g.nodes[u][TAG], g.nodes[v][TAG]
            d[BTAG] = f"{min(tu, tv)}-{max(tu, tv)}"
    return g


def harness_relabel(g, rng: random.Random, perm=None):
    """Independent relabelling of an nx graph: permuted labels over the same label set, shuffled node insertion
    order, shuffled edge insertion order, random edge orientation. Attribute dicts are copied."""
    import networkx as nx
    nodes = list(g.nodes)
    if perm is None:
        img = list(nodes)
        rng.shuffle(img)
        perm = dict(zip(nodes, img))
    order = list(nodes)
    rng.shuffle(order)
    out = nx.Graph()
    out.graph.update(g.graph)
    for v in order:
        out.add_node(perm[v], **dict(g.nodes[v]))
    es = [(u, v, dict(d)) for u, v, d in g.edges(data=True)]
    rng.shuffle(es)
    for u, v, d in es:
        if rng.random() < 0.5:
            u, v = v, u
        out.add_edge(perm[u], perm[v], **d)
    return out, perm


def colors_edges(g):
    """Project an nx molecule graph onto (colors, edges) with vertices renumbered 0..n-1 in sorted label order."""
    nodes = sorted(g.nodes)
    idx = {v: k for k, v in enumerate(nodes)}
    colors = [(g.nodes[v]["atomic_number"], g.nodes[v].get("mass", 0) or 0, g.nodes[v].get("rad", 0) or 0) for v in nodes]
    edges = [(idx[u], idx[v]) for u, v in g.edges()]
    return colors, edges


def mol_colors_edges(mol):
    return mol.colors(), mol.edge_pairs()


def fingerprint(g, ignore_explored_false=False, ignore_keys=()):
    """Deep, order-sensitive fingerprint of an nx graph (node order, node attrs, edge order, edge attrs, graph attrs)."""
    def items(d):
        out = []
        for k in sorted(d, key=str):
            if ignore_explored_false and k == "explored" and d[k] is False:
                continue
            if k in ignore_keys:
                continue
            out.append((k, repr(d[k])))
        return tuple(out)
    return (tuple((n, items(d)) for n, d in g.nodes(data=True)),
            tuple((u, v, items(d)) for u, v, d in g.edges(data=True)),
            items(g.graph))
