"""The harness's own periodic table (written out by hand; shares nothing with tucan.element_attributes)."""

SYMBOLS_BY_Z = (
    "H He Li Be B C N O F Ne Na Mg Al Si P S Cl Ar K Ca Sc Ti V Cr Mn Fe Co Ni Cu Zn Ga Ge As Se Br Kr "
    "Rb Sr Y Zr Nb Mo Tc Ru Rh Pd Ag Cd In Sn Sb Te I Xe Cs Ba La Ce Pr Nd Pm Sm Eu Gd Tb Dy Ho Er Tm Yb Lu "
    "Hf Ta W Re Os Ir Pt Au Hg Tl Pb Bi Po At Rn Fr Ra Ac Th Pa U Np Pu Am Cm Bk Cf Es Fm Md No Lr "
    "Rf Db Sg Bh Hs Mt Ds Rg Cn Nh Fl Mc Lv Ts Og"
).split()
assert len(SYMBOLS_BY_Z) == 118 and len(set(SYMBOLS_BY_Z)) == 118

Z = {s: i + 1 for i, s in enumerate(SYMBOLS_BY_Z)}
SYMBOL = {z: s for s, z in Z.items()}


def hill_key(symbol: str, has_carbon: bool):
    """Sort key of a symbol in a Hill-system formula."""
    if has_carbon:
        if symbol == "C":
            return (0, "")
        if symbol == "H":
            return (1, "")
    return (2, symbol)


def hill_order(symbols):
    """Distinct symbols in Hill order."""
    syms = set(symbols)
    has_c = "C" in syms
    return sorted(syms, key=lambda s: hill_key(s, has_c))
