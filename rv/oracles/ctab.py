"""Abstract molecule model and two independent connection-table renderers (V3000, V2000).

Written from the BIOVIA CTfile specification; shares no code with tucan. The expected reader result
is computed from the abstract molecule with the harness's own periodic table.
"""
from __future__ import annotations
import copy
import random
from dataclasses import dataclass, field

from .elements import Z


@dataclass
class Atom:
    sym: str  # element symbol (never D/T here; hydrogen isotopes are sym='H', mass=2/3)
    chg: int = 0
    rad: int = 0
    mass: int = 0
    x: float = 0.0
    y: float = 0.0
    z: float = 0.0
    tag: int = -1


@dataclass
class Mol:
    atoms: list
    bonds: list  # (i, j, bond_type) 0-based, i != j, simple
    name: str = ""
    cls: str = ""

    def copy(self):
        return copy.deepcopy(self)

    def colors(self):
        return [(Z[a.sym], a.mass, a.rad) for a in self.atoms]

    def edge_pairs(self):
        return [(i, j) for i, j, _ in self.bonds]

    def to_json(self):
        return {
            "atoms": [[a.sym, a.chg, a.rad, a.mass, a.x, a.y, a.z] for a in self.atoms],
            "bonds": [list(b) for b in self.bonds],
            "name": self.name,
            "cls": self.cls,
        }

    @staticmethod
    def from_json(d):
        return Mol([Atom(s, c, r, m, x, y, z, i) for i, (s, c, r, m, x, y, z) in enumerate(d["atoms"])],
                   [tuple(b) for b in d["bonds"]], d.get("name", ""), d.get("cls", ""))


def expected_nodes(mol: Mol):
    """What a faithful reader returns: list (file order) of public attribute dicts, defaults omitted."""
    out = []
    for a in mol.atoms:
        d = {"element_symbol": a.sym, "atomic_number": Z[a.sym],
             "x_coord": float(a.x), "y_coord": float(a.y), "z_coord": float(a.z)}
        if a.chg:
            d["chg"] = a.chg
        if a.rad:
            d["rad"] = a.rad
        if a.mass:
            d["mass"] = a.mass
        out.append(d)
    return out


def expected_edges(mol: Mol):
    return {(min(i, j), max(i, j)): t for i, j, t in mol.bonds}


PUBLIC_NODE_KEYS = ("element_symbol", "atomic_number", "x_coord", "y_coord", "z_coord", "chg", "rad", "mass")


def observed_nodes(graph, normalise_defaults=True):
    """Project a tucan graph onto the public attribute keys, in node iteration order.
    With normalise_defaults an attribute equal to 0 counts as absent (the model does not prescribe a
    representation for defaults; whether explicit and omitted defaults agree is checked relationally)."""
    out = []
    for _, attrs in graph.nodes(data=True):
        d = {}
        for k in PUBLIC_NODE_KEYS:
            if k in attrs:
                v = attrs[k]
                if normalise_defaults and k in ("chg", "rad", "mass") and v == 0:
                    continue
                d[k] = v
        out.append(d)
    return out


def observed_edges(graph, by_position=False):
    """{(i, j): bond_type}; with by_position the endpoints are positions in node iteration order (= file order), not labels."""
    pos = {v: k for k, v in enumerate(graph.nodes)} if by_position else None
    out = {}
    for a, b, d in graph.edges(data=True):
        if pos is not None:
            a, b = pos[a], pos[b]
        out[(min(a, b), max(a, b))] = d.get("bond_type")
    return out


# --------------------------------------------------------------------------------------------
# number formatting helpers

def fixed_exact(v: float) -> str:
    """Shortest fixed-point (no exponent) decimal t with float(t) == v."""
    for d in range(0, 340):
        t = f"{v:.{d}f}"
        if float(t) == v:
            return t
    return f"{v:.340f}"


def fmt_coord_v3000(v: float, rng: random.Random | None, exotic=False) -> str:
    """A decimal spelling t of v with float(t) == v exactly: fixed-point by default (no leading '+'); with exotic=True also the exponent form
    that C's printf %e / %E (and Python's repr, as in the corpus file C180.mol: -3.06433e-07) produce: mantissa, e or E, sign, two digits."""
    v = float(v)
    base = fixed_exact(v)
    cands = [base]
    if "." not in base:
        cands.append(base + ".0")
        cands.append(base + ".0000")
    else:
        cands.append(base + "0")
        cands.append(base + "000")
    s4 = f"{v:.4f}"
    if float(s4) == v:
        cands.append(s4)
    s6 = f"{v:.6f}"
    if float(s6) == v:
        cands.append(s6)
    if exotic and v != 0:
        e = f"{v:.16e}"
        if float(e) == v:
            m, x = e.split("e")
            m = m.rstrip("0").rstrip(".") if "." in m else m
            cands.append(f"{m}e{int(x):+03d}")
            cands.append(f"{m}E{int(x):+03d}")  # printf %E / Fortran writers print the marker in upper case
    if rng is None:
        return cands[0]
    return rng.choice(cands)


# --------------------------------------------------------------------------------------------
# V3000

ATOM_EXTRA_KEYWORDS = [
    "CFG=1", "CFG=2", "VAL=3", "VAL=-1", "HCOUNT=2", "STBOX=1", "INVRET=1", "EXACHG=1", "SUBST=2",
    "UNSAT=1", "RBCNT=3", "ATTCHPT=1", "ATTCHPT=-1", "ATTCHORD=(2 @NBR Al)", "CLASS=AA", "SEQID=7",
]
BOND_EXTRA_KEYWORDS = ["CFG=1", "CFG=3", "TOPO=1", "TOPO=2", "RXCTR=4", "STBOX=1", "DISP=COORD"]


@dataclass
class V3Style:
    """Spelling choices; every field None/False/default gives the plainest rendering."""
    index_map: list | None = None  # file index per atom (unique positive ints)
    atom_order: list | None = None  # order in which atom lines are listed (positions of mol.atoms)
    bond_order: list | None = None
    bond_flip: list | None = None  # per bond: write endpoints swapped
    bond_index_map: list | None = None
    blanks: int = 1  # max run of blanks between tokens
    kw_shuffle: bool = False
    extra_atom_kw: float = 0.0  # probability of inserting each kind of unrelated keyword
    extra_bond_kw: float = 0.0
    explicit_defaults: float = 0.0  # probability of writing CHG=0 / RAD=0 / MASS=0 when default
    dt_symbols: bool = False  # spell H mass 2/3 as D/T
    split: str = "none"  # none | random | multi | every:<k>
    split_lines: str = "atoms+bonds"  # which logical lines may be split
    star: bool = False  # encode some bonds via a star atom + ENDPTS
    star_all: bool = False  # bundle ALL bonds of the chosen centre (long ENDPTS lists)
    empty_bond_block: bool = False  # write BEGIN BOND / END BOND although there is no bond
    header: list | None = None  # three header lines
    trailing_blocks: bool = False
    after_end: str = ""
    eol: str = "\n"
    exotic_numbers: bool = False
    aamap: bool = False
    final_eol: bool = False
    counts_extra: bool = False
    max_len: int = 79  # physical line length without the newline (80 including it)


def _join(tokens, rng, blanks):
    if blanks <= 1 or rng is None:
        return " ".join(tokens)
    out = tokens[0]
    for t in tokens[1:]:
        out += " " * rng.randint(1, blanks) + t
    return out


def _split_logical(content: str, rng, style: V3Style, kind: str, obs: dict):
    """Return physical lines for one logical V30 line with content `content`."""
    prefix = "M  V30 "
    mode = style.split
    allowed = {"atoms+bonds": ("atom", "bond"), "all": ("atom", "bond", "counts", "frame"), "atoms": ("atom",),
               "bonds": ("bond",), "counts": ("counts",)}[style.split_lines]
    room = style.max_len - len(prefix) - 1  # physical line <= max_len chars without newline incl. dash
    cuts = []
    if mode != "none" and kind in allowed and len(content) >= 2:
        if mode == "random":
            if rng.random() < 0.7:
                cuts = [rng.randint(1, len(content) - 1)]
        elif mode == "multi":
            k = rng.randint(2, min(5, len(content) - 1))
            cuts = sorted(rng.sample(range(1, len(content)), k))
        elif mode == "kw":
            # cut exactly at the blank in front of a key=value item (blank begins the continuation piece) or right after it (blank ends the first piece)
            import re as _re
            spots = [m.start() for m in _re.finditer(r" (?=(?:CHG|RAD|MASS|CFG|VAL|ENDPTS|ATTACH)=)", content)]
            if spots:
                k = rng.choice(spots)
                cuts = [k if rng.random() < 0.6 else k + 1]
                obs["split_before_keyword"] = obs.get("split_before_keyword", 0) + 1
        elif mode.startswith("at:"):
            cuts = [int(c) for c in mode[3:].split(",") if 0 < int(c) < len(content)]
    # mandatory cuts so that no physical line exceeds max_len
    pieces = []
    start = 0
    for c in cuts + [len(content)]:
        seg = content[start:c]
        while len(seg) > room:
            pieces.append(seg[:room])
            seg = seg[room:]
        pieces.append(seg)
        start = c
    lines = []
    pos = 0
    for k, p in enumerate(pieces):
        last = k == len(pieces) - 1
        pad_l = pad_r = ""
        if style.blanks > 1 and kind in ("atom", "bond") and rng.random() < 0.3:
            # free format: extra blanks after the 'M  V30 ' prefix of the first piece and at the end of an uncontinued line
            if k == 0 and len(prefix + p) < style.max_len - 3:
                pad_l = " " * rng.randint(1, 2)
            if last and len(prefix + pad_l + p) < style.max_len - 3:
                pad_r = " " * rng.randint(1, 2)
            obs["padded_lines"] = obs.get("padded_lines", 0) + 1
        lines.append(prefix + pad_l + p + pad_r + ("" if last else "-"))
        pos += len(p)
        if not last:
            before = content[pos - 1]
            after = content[pos]
            cls = ("after-minus" if before == "-" else "before-blank" if after == " " else "after-blank" if before == " "
                   else "in-number" if (before.isdigit() or before == ".") and (after.isdigit() or after == ".")
                   else "in-keyword" if before.isalpha() and (after.isalpha() or after == "=")
                   else "after-equals" if before == "=" else "other")
            obs.setdefault("split_class", {}).setdefault(f"{kind}:{cls}", 0)
            obs["split_class"][f"{kind}:{cls}"] += 1
    if len(pieces) > 2:
        obs["multi_split_lines"] = obs.get("multi_split_lines", 0) + 1
    return lines


def render_v3000(mol: Mol, style: V3Style | None = None, rng: random.Random | None = None, obs: dict | None = None) -> str:
    style = style or V3Style()
    obs = obs if obs is not None else {}
    rng = rng or random.Random(0)
    n = len(mol.atoms)
    index_map = style.index_map or list(range(1, n + 1))
    atom_order = style.atom_order or list(range(n))
    bond_order = style.bond_order or list(range(len(mol.bonds)))
    flips = style.bond_flip or [False] * len(mol.bonds)

    bonds = list(mol.bonds)
    star_lines = []  # (star_index, [(type, centre, [endpoints])])
    star_bonds = []
    plain_bond_ids = list(bond_order)
    next_free = max(index_map) + 1 if index_map else 1
    if style.star and bonds:
        # bundle some bonds of one centre atom and one bond type into a star bond (ENDPTS); one or two star atoms per file
        for _rep in range(rng.choice([1, 1, 2])):
            by_centre = {}
            for bi in plain_bond_ids:
                i, j, t = bonds[bi]
                by_centre.setdefault((i, t), []).append((bi, j))
                by_centre.setdefault((j, t), []).append((bi, i))
            if not by_centre:
                break
            keys = sorted(by_centre)
            (centre, t) = max(keys, key=lambda kk: len(by_centre[kk])) if style.star_all else rng.choice(keys)
            group = by_centre[(centre, t)]
            k = len(group) if style.star_all else rng.randint(1, len(group))
            if k >= 10:
                obs["star_endpoints_ge_10"] = obs.get("star_endpoints_ge_10", 0) + 1
            chosen = rng.sample(group, k)
            for bi, _ in chosen:
                plain_bond_ids.remove(bi)
            unused = [x for x in range(1, max(index_map) + 1) if x not in set(index_map) and x not in {sb[0] for sb in star_bonds}]
            if star_bonds and rng.random() < 0.35:
                star_idx = rng.choice(star_bonds)[0]  # ONE star atom serving several multi-attachment bond lines, each with its own ENDPTS
                obs["star_atom_shared_by_several_bond_lines"] = obs.get("star_atom_shared_by_several_bond_lines", 0) + 1
            elif unused and rng.random() < 0.5:
                star_idx = rng.choice(unused)  # an index INSIDE the range used by the real atoms
            else:
                star_idx = next_free
                next_free += rng.choice([1, 1, 5])
            star_bonds.append((star_idx, t, centre, [other for _, other in chosen]))
            obs.setdefault("star_endpoints", {})
            obs["star_endpoints"][str(k)] = obs["star_endpoints"].get(str(k), 0) + 1
        obs["star_files"] = obs.get("star_files", 0) + 1
        if len(star_bonds) > 1:
            obs["multi_star_files"] = obs.get("multi_star_files", 0) + 1

    lines = []
    header = style.header or [mol.name or "", "  rvharnes", ""]
    lines.extend(header[:3])
    lines.append(rng.choice(["  0  0  0     0  0            999 V3000", "  0  0  0  0  0  0  0  0  0  0999 V3000"]) if style.counts_extra
                 else "  0  0  0     0  0            999 V3000")
    logical = []  # (kind, content)
    logical.append(("frame", "BEGIN CTAB"))
    star_atoms = sorted({sb[0] for sb in star_bonds})
    n_atom_lines = n + len(star_atoms)
    n_bond_lines = len(plain_bond_ids) + len(star_bonds)
    nsg = 2 if style.trailing_blocks else 0
    counts = _join(["COUNTS", str(n_atom_lines), str(n_bond_lines), str(nsg), "0", "0"], rng, style.blanks)
    if style.counts_extra:
        counts = _join(["COUNTS", str(n_atom_lines), str(n_bond_lines), str(nsg), "0", "1", "REGNO=12"], rng, style.blanks)
    logical.append(("counts", counts))
    logical.append(("frame", "BEGIN ATOM"))
    # where to put the star atom line: random position in the atom block
    atom_lines = []
    for pos in atom_order:
        a = mol.atoms[pos]
        sym = a.sym
        mass_kw = a.mass
        if style.dt_symbols and a.sym == "H" and a.mass in (2, 3):
            sym = "D" if a.mass == 2 else "T"
            mass_kw = 0
            obs["dt_seen"] = obs.get("dt_seen", 0) + 1
        toks = [str(index_map[pos]), sym,
                fmt_coord_v3000(a.x, rng, style.exotic_numbers), fmt_coord_v3000(a.y, rng, style.exotic_numbers),
                fmt_coord_v3000(a.z, rng, style.exotic_numbers), str(rng.randint(0, 9)) if style.aamap else "0"]
        kws = []
        if a.chg:
            kws.append(f"CHG={a.chg}")
        elif rng.random() < style.explicit_defaults:
            kws.append("CHG=0"); obs["explicit_default"] = obs.get("explicit_default", 0) + 1
        if a.rad:
            kws.append(f"RAD={a.rad}")
        elif rng.random() < style.explicit_defaults:
            kws.append("RAD=0"); obs["explicit_default"] = obs.get("explicit_default", 0) + 1
        if mass_kw:
            kws.append(f"MASS={mass_kw}")
        elif rng.random() < style.explicit_defaults:
            kws.append("MASS=0"); obs["explicit_default"] = obs.get("explicit_default", 0) + 1
            if sym in ("D", "T"):
                obs["explicit_default_mass_on_DT"] = obs.get("explicit_default_mass_on_DT", 0) + 1
        used_keys = set()
        for kw in rng.sample(ATOM_EXTRA_KEYWORDS, len(ATOM_EXTRA_KEYWORDS)):
            key = kw.split("=")[0]
            if key in used_keys:
                continue
            if rng.random() < style.extra_atom_kw / 4:
                if "@NBR" in kw:  # a parenthesised value with blanks; the neighbour it names must exist
                    nbrs = [j if i == pos else i for i, j, _ in mol.bonds if pos in (i, j)]
                    if not nbrs:
                        continue
                    kw = kw.replace("@NBR", str(index_map[nbrs[0]]))
                used_keys.add(key)
                kws.append(kw)
                obs.setdefault("extra_kw", {})
                obs["extra_kw"][key] = obs["extra_kw"].get(key, 0) + 1
        if style.kw_shuffle:
            rng.shuffle(kws)
        atom_lines.append(("atom", _join(toks + kws, rng, style.blanks)))
    for star_idx in star_atoms:
        line = ("atom", _join([str(star_idx), "*", "0", "0", "0", "0"], rng, style.blanks))
        atom_lines.insert(rng.randint(0, len(atom_lines)), line)
    logical.extend(atom_lines)
    logical.append(("frame", "END ATOM"))
    if n_bond_lines or style.empty_bond_block:
        logical.append(("frame", "BEGIN BOND"))
        blines = []
        bidx = 0
        for bi in plain_bond_ids:
            i, j, t = bonds[bi]
            if flips[bi]:
                i, j = j, i
            bidx += 1
            file_bidx = style.bond_index_map[bi] if style.bond_index_map else bidx
            toks = [str(file_bidx), str(t), str(index_map[i]), str(index_map[j])]
            kws, used_keys = [], set()
            for kw in rng.sample(BOND_EXTRA_KEYWORDS, len(BOND_EXTRA_KEYWORDS)):
                if kw.split("=")[0] not in used_keys and rng.random() < style.extra_bond_kw / 3:
                    used_keys.add(kw.split("=")[0])
                    kws.append(kw)
            for kw in kws:
                key = "B" + kw.split("=")[0]
                obs.setdefault("extra_kw", {})
                obs["extra_kw"][key] = obs["extra_kw"].get(key, 0) + 1
            blines.append(("bond", _join(toks + kws, rng, style.blanks)))
        for (star_idx, t, centre, others) in star_bonds:
            bidx += 1
            ends = [str(index_map[o]) for o in others]
            sep = " " * (rng.randint(1, style.blanks) if style.blanks > 1 else 1)
            endpts = "ENDPTS=(" + sep.join([str(len(ends))] + ends) + ")"
            pair = [str(star_idx), str(index_map[centre])]
            if rng.random() < 0.5:
                pair.reverse()
                obs["star_second"] = obs.get("star_second", 0) + 1
            else:
                obs["star_first"] = obs.get("star_first", 0) + 1
            toks = [str(max(style.bond_index_map) + bidx + 1 if style.bond_index_map else bidx), str(t)] + pair
            tail = [endpts, rng.choice(["ATTACH=ANY", "ATTACH=ALL"])]
            if rng.random() < 0.3:
                tail.append("CFG=1")
            if style.kw_shuffle:
                rng.shuffle(tail)
            blines.append(("bond", _join(toks + tail, rng, style.blanks)))
            pos = rng.randint(0, len(blines) - 1)
            blines.insert(pos, blines.pop())
        logical.extend(blines)
        logical.append(("frame", "END BOND"))
    if style.trailing_blocks and len(mol.bonds) >= 2 and rng.random() < 0.5:
        nb = {}
        for i, j, _ in mol.bonds:
            nb.setdefault(i, []).append(j)
            nb.setdefault(j, []).append(i)
        centres = [c for c in sorted(nb) if len(nb[c]) >= 2]
        if centres:
            c = centres[0]
            logical.append(("frame", f"LINKNODE 1 3 2 {index_map[c]} {index_map[nb[c][0]]} {index_map[c]} {index_map[nb[c][1]]}"))
            obs["linknode_lines"] = obs.get("linknode_lines", 0) + 1
    if style.trailing_blocks:
        logical.append(("frame", "BEGIN SGROUP"))
        label = rng.choice(["X", "5'-P", "Ph", "\"tert-butyl group\"", "N(Me)2", "3'-OH", "a\\b"])
        logical.append(("frame", "1 SUP 1 ATOMS=(1 %d) LABEL=%s" % (index_map[0], label)))
        logical.append(("frame", "2 DAT 2 ATOMS=(1 %d) FIELDNAME=note FIELDDATA=%s" % (index_map[0], rng.choice(["3'-OH", "\"melting point 5 C\"", "x"]))))
        if "'" in label or '"' in label:
            obs["sgroup_text_with_quotes"] = obs.get("sgroup_text_with_quotes", 0) + 1
        logical.append(("frame", "END SGROUP"))
        logical.append(("frame", "BEGIN COLLECTION"))
        logical.append(("frame", "MDLV30/HILITE ATOMS=(1 %d)" % index_map[0]))
        logical.append(("frame", "END COLLECTION"))
        obs["trailing_blocks"] = obs.get("trailing_blocks", 0) + 1
    logical.append(("frame", "END CTAB"))
    for kind, content in logical:
        lines.extend(_split_logical(content, rng, style, kind, obs))
    lines.append("M  END")
    text = join_lines(lines, style.eol, rng)
    e = "\n" if style.eol in ("mixed", "mixed-cr") else style.eol
    if style.after_end:
        text += e + style.after_end.replace("\n", e)
    if style.final_eol:
        text += e
    return text


def join_lines(lines, eol, rng):
    """eol: a terminator string, or 'mixed' = every line gets its own terminator, LF or CRLF (a file edited on several systems);
    'mixed-cr' additionally uses bare CR (only the line-ending-style dimension of C06 asks for it)."""
    if eol not in ("mixed", "mixed-cr"):
        return eol.join(lines)
    out = []
    for k, l in enumerate(lines):
        out.append(l)
        if k < len(lines) - 1:
            # a bare CR directly followed by an EMPTY line ended by LF would read as one CRLF: never generate that ambiguity
            choices = ["\n", "\r\n", "\r\n"] + ([] if (lines[k + 1] == "" or eol == "mixed") else ["\r"])
            out.append(rng.choice(choices))
    return "".join(out)


def expected_after_star(mol: Mol):
    """Star encodings do not change the abstract molecule: each ENDPTS entry is one bond of the stated type."""
    return mol


# --------------------------------------------------------------------------------------------
# V2000

CHARGE_CODE = {3: 1, 2: 2, 1: 3, -1: 5, -2: 6, -3: 7}  # charge -> code; code 4 = doublet radical


@dataclass
class V2Style:
    encoding: str = "lines"  # codes | lines | stale | chg_only_lines | rad_only_lines
    per_line: int = 8
    dt_symbols: bool = False
    unrelated: float = 0.0
    atom_lists: int = 0
    header: list | None = None
    eol: str = "\n"
    explicit_zero: float = 0.0
    shuffle_entries: bool = False
    interleave: bool = False
    after_end: str = ""
    final_eol: bool = False
    stereo_fields: bool = False
    counts_noise: bool = False  # non-identity fields of the counts line (chiral flag) take other legal values
    two_line_records: float = 0.0  # probability per slot of a two-line record whose text looks like a property line


def v2000_representable(mol: Mol) -> bool:
    if len(mol.atoms) > 999 or len(mol.bonds) > 999:
        return False
    for a in mol.atoms:
        for v in (a.x, a.y, a.z):
            s = f"{v:10.4f}"
            if len(s) != 10 or float(s) != v:
                return False
        if not (-15 <= a.chg <= 15) or not (0 <= a.rad <= 3) or not (0 <= a.mass <= 999):
            return False
    if any(not (1 <= t <= 8) for _, _, t in mol.bonds):
        return False
    return True


def codes_only_possible(mol: Mol) -> bool:
    for a in mol.atoms:
        if a.chg and a.rad:
            return False
        if a.chg and a.chg not in CHARGE_CODE:
            return False
        if a.rad and a.rad != 2:
            return False
    return True


def _prop_lines(tag, entries, per_line, rng, shuffle):
    entries = list(entries)
    if shuffle and rng is not None:
        rng.shuffle(entries)
    out = []
    k = 0
    while k < len(entries):
        size = per_line if (rng is None or per_line > 0) else 8
        if per_line == 0:
            size = rng.randint(1, 8)  # ragged: every line its own number of entries
        chunk = entries[k:k + size]
        k += size
        out.append(f"M  {tag}{len(chunk):3d}" + "".join(f" {i:3d} {v:3d}" for i, v in chunk))
    return out


UNRELATED_V2000 = [  # each record at most once per file; atom references exist in every molecule (atom 1)
    ["M  STY  1   1 SUP", "M  SAL   1  1   1", "M  SMT   1 Ph"], ["M  STY  1   2 GEN"],
    ["A    1", "R-group alias"], ["V    1 some atom value"], ["M  ALS   1  2 F C   N   "],
    ["S  SKP  1", "skipped line M  ISO"], ["M  SUB  1   1   2"],
    ["M  UNS  1   1   1"], ["M  RBC  1   1   2"],
]


def two_line_records(n_atoms, rng, bonded=None):
    """Records whose FOLLOW-UP line is free text (atom alias 'A  aaa', group abbreviation 'G  aaappp') or is to be skipped ('S  SKPnnn'),
    spelled so that the text LOOKS like a property line. A reader must not interpret it."""
    a = rng.randint(1, n_atoms)
    bonded = bonded or []
    fake = rng.choice([f"M  CHG  1 {a:3d}   1", f"M  RAD  1 {a:3d}   2", f"M  ISO  1 {a:3d}  14", f"M  ISO  2 {a:3d}  13 {rng.randint(1, n_atoms):3d}   2"])
    kind = rng.choice(["alias", "group", "skip1", "skip2"] if bonded else ["alias", "skip1", "skip2"])
    if kind == "alias":
        return [f"A  {a:3d}", fake]
    if kind == "group":  # aaa = an atom of the abbreviated group, ppp = the atom it is bonded to
        i, j = rng.choice(bonded)
        return [f"G  {i + 1:3d}{j + 1:3d}", fake]
    if kind == "skip1":
        return ["S  SKP  1", fake]
    return ["S  SKP  2", fake, f"M  CHG  1 {rng.randint(1, n_atoms):3d}  -1"]


def render_v2000(mol: Mol, style: V2Style | None = None, rng: random.Random | None = None, obs: dict | None = None) -> str:
    style = style or V2Style()
    rng = rng or random.Random(0)
    obs = obs if obs is not None else {}
    n = len(mol.atoms)
    enc = style.encoding
    if enc == "codes" and not codes_only_possible(mol):
        enc = "lines"
    zero_only = False
    if enc == "stale" and not any(a.chg or a.rad for a in mol.atoms):
        # a neutralised drawing: the only M  CHG / M  RAD entries are explicit zeros, and they still supersede the stale atom-block codes
        zero_only = True
        obs["stale_codes_with_zero_only_property_lines"] = obs.get("stale_codes_with_zero_only_property_lines", 0) + 1
    obs.setdefault("encoding", {})
    obs["encoding"][enc] = obs["encoding"].get(enc, 0) + 1
    lines = list((style.header or [mol.name or "", "  rvharnes", ""])[:3])
    # aaabbblllfffcccsssxxxrrrpppiiimmmvvvvvv : fff obsolete, ccc chiral flag (0/1), sss..iii obsolete (kept 0), mmm = 999
    chiral = rng.choice([0, 1]) if style.counts_noise else 0
    if chiral:
        obs["v2000_chiral_flag_set"] = obs.get("v2000_chiral_flag_set", 0) + 1
    lines.append(f"{n:3d}{len(mol.bonds):3d}{style.atom_lists:3d}  0{chiral:3d}  0  0  0  0  0999 V2000")
    chg_entries, rad_entries, iso_entries = [], [], []
    for k, a in enumerate(mol.atoms):
        sym = a.sym
        code = 0
        mass_in_iso = a.mass
        if style.dt_symbols and a.sym == "H" and a.mass in (2, 3):
            sym = "D" if a.mass == 2 else "T"
            mass_in_iso = 0
            obs["dt_seen"] = obs.get("dt_seen", 0) + 1
        if enc == "codes":
            if a.chg:
                code = CHARGE_CODE[a.chg]
            elif a.rad == 2:
                code = 4
            if code:
                obs["codes_used"] = obs.get("codes_used", 0) + 1
        else:
            if a.chg:
                chg_entries.append((k + 1, a.chg))
            elif rng.random() < style.explicit_zero:
                chg_entries.append((k + 1, 0)); obs["explicit_default"] = obs.get("explicit_default", 0) + 1
            if a.rad:
                rad_entries.append((k + 1, a.rad))
            elif rng.random() < style.explicit_zero:
                rad_entries.append((k + 1, 0)); obs["explicit_default"] = obs.get("explicit_default", 0) + 1
            if enc == "stale":
                # atom block carries codes that the property lines supersede
                code = rng.choice([0, 1, 2, 3, 4, 5, 6, 7])
                if code:
                    obs["stale_codes"] = obs.get("stale_codes", 0) + 1
            elif enc == "agree":
                if a.chg in CHARGE_CODE and not a.rad:
                    code = CHARGE_CODE[a.chg]
                elif a.rad == 2 and not a.chg:
                    code = 4
        if mass_in_iso:
            iso_entries.append((k + 1, mass_in_iso))
        sss = rng.randint(0, 3) if style.stereo_fields else 0
        hhh = rng.randint(0, 4) if style.stereo_fields else 0
        vvv = rng.choice([0, 0, 1, 15]) if style.stereo_fields else 0
        mmm, nnn, eee = (rng.randint(0, n), rng.choice([0, 1, 2]), rng.choice([0, 1])) if style.stereo_fields else (0, 0, 0)
        lines.append(f"{a.x:10.4f}{a.y:10.4f}{a.z:10.4f} {sym:<3s} 0{code:3d}{sss:3d}{hhh:3d}  0{vvv:3d}  0  0  0{mmm:3d}{nnn:3d}{eee:3d}")
    if zero_only and not chg_entries and not rad_entries:
        (chg_entries if rng.random() < 0.5 else rad_entries).append((rng.randint(1, n), 0))
    for i, j, t in mol.bonds:
        st = (rng.choice([0, 1, 4, 6]) if t == 1 else rng.choice([0, 3]) if t == 2 else 0) if style.stereo_fields else 0
        rrr, ccc = (rng.choice([0, 1, 2]), rng.choice([0, -1, 1, 4, 8])) if style.stereo_fields else (0, 0)
        lines.append(f"{i + 1:3d}{j + 1:3d}{t:3d}{st:3d}  0{rrr:3d}{ccc:3d}")
    for k in range(style.atom_lists):
        lines.append(f"{(k % n) + 1:3d} F    2   9  17")
        obs["atom_list_lines"] = obs.get("atom_list_lines", 0) + 1
    groups = []
    if chg_entries:
        groups.append(_prop_lines("CHG", chg_entries, style.per_line, rng, style.shuffle_entries))
    if rad_entries:
        groups.append(_prop_lines("RAD", rad_entries, style.per_line, rng, style.shuffle_entries))
    if iso_entries:
        groups.append(_prop_lines("ISO", iso_entries, style.per_line, rng, style.shuffle_entries))
    for g in groups:
        for l in g:
            cnt = int(l[6:9])
            obs.setdefault("entries_per_line", {})
            obs["entries_per_line"][str(cnt)] = obs["entries_per_line"].get(str(cnt), 0) + 1
    if obs.get("dt_seen") and iso_entries and style.dt_symbols:
        obs["dt_with_foreign_iso"] = obs.get("dt_with_foreign_iso", 0) + 1
    prop = []
    if style.interleave:
        rng.shuffle(groups)
        flat = [l for g in groups for l in g]
        # keep per-tag line order but interleave tags
        by = {}
        for l in flat:
            by.setdefault(l[3:6], []).append(l)
        keys = list(by)
        while any(by.values()):
            k = rng.choice([k for k in keys if by[k]])
            prop.append(by[k].pop(0))
    else:
        prop = [l for g in groups for l in g]
    # records are kept as units (a record may span two or three physical lines), extra records go BETWEEN them
    records = [[l] for l in prop]
    if style.unrelated > 0:
        out, used_unrelated = [], set()
        for rec in records + [None]:
            while rng.random() < style.unrelated:
                u = rng.choice(UNRELATED_V2000)
                if u[0] in used_unrelated or (u[0].startswith("M  ALS") and not style.atom_lists):
                    continue
                used_unrelated.add(u[0])
                out.append(list(u))
                obs.setdefault("unrelated", {})
                obs["unrelated"][u[0][:6]] = obs["unrelated"].get(u[0][:6], 0) + 1
            if rec is not None:
                out.append(rec)
        records = out
    if style.two_line_records > 0:
        out = []
        for rec in records + [None]:
            if rng.random() < style.two_line_records:
                out.append(two_line_records(n, rng, [(i, j) for i, j, _ in mol.bonds]))
                obs["two_line_records_with_property_like_text"] = obs.get("two_line_records_with_property_like_text", 0) + 1
            if rec is not None:
                out.append(rec)
        records = out
    prop = [l for rec in records for l in rec]
    lines.extend(prop)
    lines.append("M  END")
    text = join_lines(lines, style.eol, rng)
    e = "\n" if style.eol in ("mixed", "mixed-cr") else style.eol
    if style.after_end:
        text += e + style.after_end.replace("\n", e)
    if style.final_eol:
        text += e
    return text


# --------------------------------------------------------------------------------------------
# minimal independent reader for PLAIN V3000 files (corpus molfiles) -> abstract molecule

def parse_plain_v3000(text: str):
    """Own reader for the plain subset (no continuation lines, no star atoms, consecutive ascending indices not required).
    Returns Mol, or None if the file uses anything beyond the subset (then the harness simply does not use it)."""
    lines = text.splitlines()
    if len(lines) < 7 or not lines[3].rstrip().endswith("V3000"):
        return None
    body = []
    for ln in lines[4:]:
        if ln.startswith("M  END"):
            break
        if not ln.startswith("M  V30 ") or ln.rstrip().endswith("-"):
            return None
        body.append(ln[7:].split())
    try:
        ia, ja = body.index(["BEGIN", "ATOM"]), body.index(["END", "ATOM"])
    except ValueError:
        return None
    atoms, index_of = [], {}
    for toks in body[ia + 1:ja]:
        if len(toks) < 6 or toks[1] == "*" or toks[1] not in Z and toks[1] not in ("D", "T"):
            return None
        sym, mass = toks[1], 0
        if sym in ("D", "T"):
            sym, mass = "H", 2 if toks[1] == "D" else 3
        a = Atom(sym, 0, 0, mass, float(toks[2]), float(toks[3]), float(toks[4]), len(atoms))
        for kw in toks[6:]:
            if kw.startswith("CHG="):
                a.chg = int(kw[4:])
            elif kw.startswith("RAD="):
                a.rad = int(kw[4:])
            elif kw.startswith("MASS=") and toks[1] not in ("D", "T"):
                a.mass = int(kw[5:])
        index_of[int(toks[0])] = len(atoms)
        atoms.append(a)
    bonds = []
    if ["BEGIN", "BOND"] in body:
        ib, jb = body.index(["BEGIN", "BOND"]), body.index(["END", "BOND"])
        for toks in body[ib + 1:jb]:
            if any(t.startswith("ENDPTS") for t in toks):
                return None
            i, j = index_of.get(int(toks[2])), index_of.get(int(toks[3]))
            if i is None or j is None or i == j:
                return None
            bonds.append((i, j, int(toks[1])))
    if len({(min(i, j), max(i, j)) for i, j, _ in bonds}) != len(bonds):
        return None
    return Mol(atoms, bonds, "", "M6")
