"""Independent recogniser / reference reader / canonical-layout validator for TUCAN strings.

Written from tucan.ebnf and Hill's rule; shares no code with the library. The language is regular;
this module tokenises by longest match over its own token table and then recognises the token
sequence with a hand-written deterministic recogniser.

reference_read(s) -> RefGraph | Reject(reason)
validate_layout(s, elements_counter, edges_count, labelled) -> list of complaints
"""
from __future__ import annotations
import re
from collections import Counter
from dataclasses import dataclass, field

from .elements import SYMBOLS_BY_Z, Z, hill_key

_SYMS = set(SYMBOLS_BY_Z)
# longest-match tokeniser: element symbols are [A-Z][a-z]?; keywords; numbers; punctuation
_TOKEN_RE = re.compile(r"[A-Z][a-z]|[A-Z]|mass|rad|[1-9][0-9]+|[1-9]|[()\-:,=/]")


class Reject(Exception):
    def __init__(self, reason, detail=""):
        super().__init__(f"{reason}: {detail}")
        self.reason = reason
        self.detail = detail


@dataclass
class RefGraph:
    elements: list  # symbol per index 0..n-1 (sorted by Z, stable)
    edges: set  # {(a,b)} a<b, 0-based
    attrs: dict  # index -> {"mass": v, "rad": v}
    formula_items: list = field(default_factory=list)  # [(symbol, count)] as written
    tuples_raw: list = field(default_factory=list)  # as written, 1-based
    attr_blocks_raw: list = field(default_factory=list)  # [(index, [(key, value), ...])]


def tokenize(s: str):
    toks = []
    pos = 0
    n = len(s)
    while pos < n:
        m = _TOKEN_RE.match(s, pos)
        if not m:
            raise Reject("lexer", f"no token at {pos}: {s[pos:pos+5]!r}")
        t = m.group()
        if t[0].isupper():
            # the lexer's literal table holds only real element symbols; longest match first
            if t in _SYMS:
                pass
            elif t[0] in _SYMS and len(t) == 2:
                # fall back to the one-letter symbol; the lowercase letter must start 'mass'/'rad' or fail
                t = t[0]
            else:
                raise Reject("lexer", f"unknown symbol {t!r} at {pos}")
        toks.append(t)
        pos += len(t)
    return toks


def _is_num(t):
    return t[0].isdigit()


def _to_int(t: str) -> int:
    """int() without CPython's str->int digit limit (the reference reader must not share the interpreter's quirk)."""
    if len(t) <= 4000:
        return int(t)
    v = 0
    for k in range(0, len(t), 4000):
        chunk = t[k:k + 4000]
        v = v * (10 ** len(chunk)) + int(chunk)
    return v


def recognise(s: str) -> RefGraph:
    """Syntax per EBNF; raises Reject. Returns the raw items (semantic checks are in reference_read)."""
    toks = tokenize(s)
    i = 0
    n = len(toks)
    items = []
    # --- sum formula
    while i < n and toks[i] in _SYMS:
        sym = toks[i]
        i += 1
        cnt = 1
        if i < n and _is_num(toks[i]):
            cnt = _to_int(toks[i])
            if cnt < 2:
                raise Reject("syntax", "count must be > 1")
            i += 1
        items.append((sym, cnt))
    has_c = bool(items) and items[0][0] == "C"
    prev = None
    for sym, _ in items:
        if not has_c and sym == "C":
            raise Reject("syntax", "carbon must come first")
        k = hill_key(sym, has_c)
        if prev is not None and not (prev < k):
            raise Reject("syntax", f"formula not in Hill order at {sym}")
        prev = k
    if i >= n or toks[i] != "/":
        raise Reject("syntax", "expected '/' after formula")
    i += 1
    # --- tuples
    tuples = []
    while i < n and toks[i] == "(":
        if i + 4 < n + 0 and _is_num(toks[i + 1]) and toks[i + 2] == "-" and _is_num(toks[i + 3]) and toks[i + 4] == ")":
            tuples.append((_to_int(toks[i + 1]), _to_int(toks[i + 3])))
            i += 5
        else:
            raise Reject("syntax", f"bad tuple at token {i}")
    blocks = []
    if i < n:
        if toks[i] != "/":
            raise Reject("syntax", f"unexpected token {toks[i]!r}")
        i += 1
        while i < n and toks[i] == "(":
            if not (i + 2 < n and _is_num(toks[i + 1]) and toks[i + 2] == ":"):
                raise Reject("syntax", "bad attribute block head")
            idx = _to_int(toks[i + 1])
            i += 3
            props = []
            while True:
                if not (i + 2 < n and toks[i] in ("mass", "rad") and toks[i + 1] == "=" and _is_num(toks[i + 2])):
                    raise Reject("syntax", "bad property")
                props.append((toks[i], _to_int(toks[i + 2])))
                i += 3
                if i < n and toks[i] == ",":
                    i += 1
                    continue
                break
            if not (i < n and toks[i] == ")"):
                raise Reject("syntax", "missing ')' of attribute block")
            i += 1
            blocks.append((idx, props))
        if i < n:
            raise Reject("syntax", f"trailing token {toks[i]!r}")
    return RefGraph([], set(), {}, items, tuples, blocks)


def reference_read(s: str) -> RefGraph:
    g = recognise(s)
    atoms = []
    for sym, cnt in g.formula_items:
        atoms.extend([sym] * cnt)
    order = sorted(range(len(atoms)), key=lambda k: Z[atoms[k]])  # stable
    g.elements = [atoms[k] for k in order]
    n = len(atoms)
    for a, b in g.tuples_raw:
        if a == b:
            raise Reject("self-loop", "tuple with equal endpoints")
    for a, b in g.tuples_raw:
        if a > n or b > n:
            raise Reject("index", f"tuple index beyond {n} atoms")
        g.edges.add((min(a, b) - 1, max(a, b) - 1))
    for idx, props in g.attr_blocks_raw:
        d = g.attrs.setdefault(idx - 1, {})
        for k, v in props:
            if k in d:
                raise Reject("duplicate-attribute", k)
            d[k] = v
    for idx in g.attrs:
        if idx >= n:
            raise Reject("index", f"attribute index beyond {n} atoms")
    return g


def validate_layout(s: str, elem_counts: Counter, n_edges: int, labelled: dict, elem_pair_bonds: Counter | None = None):
    """Canonical-layout rules of C05. `labelled` = multiset description of the argument's labelled atoms:
    Counter of (symbol, mass or 0, rad or 0) over atoms with mass or rad. Returns list of complaints."""
    bad = []
    try:
        g = reference_read(s)
    except Reject as r:
        return [f"not a sentence of the grammar / semantic rules: {r}"]
    n = len(g.elements)
    # formula equals the element counts
    if Counter(dict(g.formula_items)) != Counter(elem_counts):
        bad.append(f"formula {g.formula_items} != element counts {dict(elem_counts)}")
    if len(g.formula_items) != len(set(sym for sym, _ in g.formula_items)):
        bad.append("symbol repeated in formula")
    # tuples
    if len(g.tuples_raw) != n_edges:
        bad.append(f"{len(g.tuples_raw)} tuples for {n_edges} bonds")
    prev = None
    for a, b in g.tuples_raw:
        if not (1 <= a < b <= n):
            bad.append(f"tuple ({a}-{b}) not 1<=a<b<=n")
        if prev is not None and not (prev < (a, b)):
            bad.append(f"tuples not strictly ascending at ({a}-{b})")
        prev = (a, b)
    # attribute blocks
    prev = None
    for idx, props in g.attr_blocks_raw:
        if prev is not None and not (prev < idx):
            bad.append(f"attribute blocks not strictly ascending at {idx}")
        prev = idx
        for k, v in props:
            if v < 1:
                bad.append("non-positive attribute value")
    got = Counter()
    for idx, d in g.attrs.items():
        if 0 <= idx < n:
            got[(g.elements[idx], d.get("mass", 0), d.get("rad", 0))] += 1
    if got != Counter(labelled):
        bad.append(f"labelled atoms {dict(got)} != argument's {dict(labelled)}")
    if elem_pair_bonds is not None:
        gb = Counter()
        for a, b in g.edges:
            gb[tuple(sorted((g.elements[a], g.elements[b])))] += 1
        if gb != elem_pair_bonds:
            bad.append("element-pair bond multiset differs from the argument's")
    if s.count("/") == 2 and not g.attr_blocks_raw:
        pass  # an empty third section is grammatical; not flagged
    return bad
