"""Independent isomorphism oracles for coloured simple graphs.

A coloured graph is (colors, edges): colors = list of hashable colour per vertex 0..n-1,
edges = iterable of (i, j) pairs. Colour of an atom = (Z, mass or 0, rad or 0).

* canon_small : exact canonical form by enumeration of all colour-respecting vertex orders (n <= 9)
* isomorphic  : canon_small when small; otherwise invariant filter + VF2 (igraph C implementation,
                networkx implementation with step budget as cross-check/fallback)
Shares no code with tucan. networkx / igraph are third-party libraries.
"""
from __future__ import annotations
import itertools
from collections import Counter

SMALL_N = 8


class Inconclusive(Exception):
    pass


def _norm(colors, edges):
    n = len(colors)
    es = set()
    for a, b in edges:
        if a == b:
            raise ValueError("self loop")
        es.add((a, b) if a < b else (b, a))
    return n, es


def canon_small(colors, edges, limit_n=9):
    """Exact canonical form: minimum over all vertex orders that list vertices by ascending colour
    of (sorted colour sequence, adjacency bit tuple). Exponential; n <= limit_n."""
    n, es = _norm(colors, edges)
    if n > limit_n:
        raise ValueError("too large for canon_small")
    groups = {}
    for v, c in enumerate(colors):
        groups.setdefault(c, []).append(v)
    keys = sorted(groups)
    colseq = tuple(c for c in keys for _ in groups[c])
    adj = [[False] * n for _ in range(n)]
    for a, b in es:
        adj[a][b] = adj[b][a] = True
    best = None
    # cheap pre-ordering inside groups by degree does not change the minimum (we enumerate all)
    for parts in itertools.product(*(itertools.permutations(groups[c]) for c in keys)):
        order = [v for part in parts for v in part]
        code = 0
        bit = 0
        for i in range(n):
            ai = adj[order[i]]
            for j in range(i + 1, n):
                code = (code << 1) | (1 if ai[order[j]] else 0)
        if best is None or code < best:
            best = code
    return (colseq, best)


def wl_signature(colors, edges, rounds=3):
    """Cheap isomorphism-invariant fingerprint: colour histogram after a few rounds of own colour refinement."""
    import hashlib
    n, es = _norm(colors, edges)
    nb = [[] for _ in range(n)]
    for a, b in es:
        nb[a].append(b)
        nb[b].append(a)
    cur = [hashlib.sha1(repr(c).encode()).hexdigest()[:12] for c in colors]
    for _ in range(rounds):
        cur = [hashlib.sha1((cur[v] + "".join(sorted(cur[u] for u in nb[v]))).encode()).hexdigest()[:12]
               for v in range(n)]
    return (n, len(es), tuple(sorted(Counter(cur).items())))


def _igraph_vf2(c1, e1, c2, e2):
    import igraph
    n1, es1 = _norm(c1, e1)
    n2, es2 = _norm(c2, e2)
    ids = {c: i for i, c in enumerate(sorted(set(c1) | set(c2), key=repr))}
    g1 = igraph.Graph(n=n1, edges=sorted(es1))
    g2 = igraph.Graph(n=n2, edges=sorted(es2))
    return g1.isomorphic_vf2(g2, color1=[ids[c] for c in c1], color2=[ids[c] for c in c2])


def _nx_vf2(c1, e1, c2, e2, budget):
    import networkx as nx
    from networkx.algorithms.isomorphism import GraphMatcher

    n1, es1 = _norm(c1, e1)
    n2, es2 = _norm(c2, e2)
    g1 = nx.Graph(); g1.add_nodes_from((i, {"c": c}) for i, c in enumerate(c1)); g1.add_edges_from(es1)
    g2 = nx.Graph(); g2.add_nodes_from((i, {"c": c}) for i, c in enumerate(c2)); g2.add_edges_from(es2)
    steps = [0]

    class Budgeted(GraphMatcher):
        def semantic_feasibility(self, a, b):
            steps[0] += 1
            if steps[0] > budget:
                raise Inconclusive("VF2 step budget exhausted")
            return self.G1.nodes[a]["c"] == self.G2.nodes[b]["c"]

    return Budgeted(g1, g2).is_isomorphic()


def isomorphic(c1, e1, c2, e2, budget=200_000, engine="auto"):
    """Exact verdict True/False, or raises Inconclusive."""
    n1, es1 = _norm(c1, e1)
    n2, es2 = _norm(c2, e2)
    if n1 != n2 or len(es1) != len(es2) or Counter(c1) != Counter(c2):
        return False
    if engine == "auto" and n1 <= SMALL_N:
        return canon_small(c1, es1) == canon_small(c2, es2)
    if engine == "auto" and wl_signature(c1, es1) != wl_signature(c2, es2):
        return False  # colour refinement separates them: certainly non-isomorphic (sound filter; keeps VF2 away from hard negative cases)
    if engine in ("auto", "igraph"):
        return _igraph_vf2(c1, es1, c2, es2)
    return _nx_vf2(c1, es1, c2, es2, budget)


def automorphism_orbits_small(colors, edges):
    """Orbits of the colour-preserving automorphism group by enumeration (n <= 8)."""
    n, es = _norm(colors, edges)
    groups = {}
    for v, c in enumerate(colors):
        groups.setdefault(c, []).append(v)
    keys = sorted(groups, key=repr)
    parent = list(range(n))

    def find(x):
        while parent[x] != x:
            parent[x] = parent[parent[x]]
            x = parent[x]
        return x

    for parts in itertools.product(*(itertools.permutations(groups[c]) for c in keys)):
        img = {}
        for c, part in zip(keys, parts):
            for v, w in zip(groups[c], part):
                img[v] = w
        ok = all(((img[a], img[b]) if img[a] < img[b] else (img[b], img[a])) in es for a, b in es)
        if ok:
            for v, w in img.items():
                ra, rb = find(v), find(w)
                if ra != rb:
                    parent[ra] = rb
    return [find(v) for v in range(n)]


def self_test(rng, cases=60):
    """Cross-check the three engines on small random coloured graphs. Returns number of comparisons."""
    done = 0
    for _ in range(cases):
        n = rng.randint(2, 7)
        cols = [rng.choice([(6, 0, 0), (6, 13, 0), (7, 0, 0)]) for _ in range(n)]
        es = [(i, j) for i in range(n) for j in range(i + 1, n) if rng.random() < 0.4]
        perm = list(range(n))
        rng.shuffle(perm)
        c2 = [None] * n
        for v in range(n):
            c2[perm[v]] = cols[v]
        e2 = {(min(perm[a], perm[b]), max(perm[a], perm[b])) for a, b in es}
        if rng.random() < 0.5 and e2:
            # perturb: replace one edge by a random pair (may or may not stay isomorphic)
            e2.discard(sorted(e2)[0])
            a, b = rng.sample(range(n), 2)
            e2.add((min(a, b), max(a, b)))
        e2 = sorted(e2)
        verdicts = {
            "canon": isomorphic(cols, es, c2, e2, engine="auto"),
            "igraph": isomorphic(cols, es, c2, e2, engine="igraph"),
            "nx": isomorphic(cols, es, c2, e2, engine="nx"),
        }
        if len(set(verdicts.values())) != 1:
            raise AssertionError(f"oracle engines disagree {verdicts} on {cols} {es} vs {c2} {e2}")
        done += 1
    return done


def refinement_rounds(colors, edges):
    """Number of splitting rounds of plain colour refinement (own implementation) until the partition is stable."""
    n, es = _norm(colors, edges)
    nb = [[] for _ in range(n)]
    for a, b in es:
        nb[a].append(b)
        nb[b].append(a)
    ids = {c: i for i, c in enumerate(sorted(set(colors)))}
    cur = [ids[c] for c in colors]
    rounds = 0
    while True:
        sig = [(cur[v], tuple(sorted(cur[u] for u in nb[v]))) for v in range(n)]
        m = {s: i for i, s in enumerate(sorted(set(sig)))}
        nxt = [m[s] for s in sig]
        if len(set(nxt)) == len(set(cur)):
            return rounds
        cur = nxt
        rounds += 1
