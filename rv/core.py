"""Shared runtime of the monitors: violation type, shard context, counters, merging."""
from __future__ import annotations
import hashlib
import json
import os
import random
import sys
import time


class MonitorViolation(Exception):
    """Raised by a monitor (contract) when an observed execution refutes a property."""

    def __init__(self, prop, monitor, witness):
        super().__init__(f"{prop}/{monitor}: {json.dumps(witness, default=str)[:400]}")
        self.prop = prop
        self.monitor = monitor
        self.witness = witness


def h(obj) -> str:
    return hashlib.sha1(repr(obj).encode()).hexdigest()[:16]


class Ctx:
    """Per-shard context handed to a property driver."""

    def __init__(self, prop, tier, seed, shard, nshards, repo):
        self.prop, self.tier, self.seed, self.shard, self.nshards, self.repo = prop, tier, seed, shard, nshards, repo
        self.rng = random.Random(f"{seed}/{prop}/{shard}")
        self.evaluations = 0
        self.distinct = set()
        self.samples = []
        self.violations = []
        self.obs = {}
        self.monitor_evals = {}
        self.skipped = {}
        self.inconclusive = []
        self.hard_inconclusive = []  # cases the monitor could not judge at all: force the run's verdict to inconclusive
        self.t0 = time.time()
        self.budget_s = None

    # -- bookkeeping
    def count(self, key, k=1, table=None):
        d = self.obs if table is None else self.obs.setdefault(table, {})
        d[key] = d.get(key, 0) + k

    def seen(self, table, key):
        d = self.obs.setdefault(table, {})
        d[str(key)] = d.get(str(key), 0) + 1

    def maxi(self, key, v):
        if v > self.obs.get(key, float("-inf")):
            self.obs[key] = v

    def mon(self, name, k=1):
        self.monitor_evals[name] = self.monitor_evals.get(name, 0) + k

    def skip(self, why):
        self.skipped[why] = self.skipped.get(why, 0) + 1

    def nontrivial(self, key):
        self.distinct.add(h(key))

    def sample(self, s, cap=4):
        if len(self.samples) < cap:
            self.samples.append(s)

    def violation(self, monitor, witness, case=None, prop=None):
        w = {"property": prop or self.prop, "monitor": monitor, "witness": witness, "case": case,
             "seed": self.seed, "shard": self.shard, "tier": self.tier}
        if len(self.violations) < 50:
            self.violations.append(w)
            self.flush_partial()  # a later hang or crash of the shard must not lose what was already observed
        else:
            self.count("violations_beyond_cap")

    def flush_partial(self):
        path = getattr(self, "partial_path", None)
        if not path:
            return
        try:
            out = self.result()
            out.update({"ok": False, "partial": True, "error": "shard did not finish (partial result flushed when a violation was recorded)"})
            tmp = path + ".tmp"
            with open(tmp, "w") as f:
                json.dump(out, f, default=str)
            os.replace(tmp, path)
        except Exception:
            pass

    def mine(self, k):
        """Static sharding of an enumerated space."""
        return k % self.nshards == self.shard

    def time_left(self):
        return self.budget_s is None or (time.time() - self.t0) < self.budget_s

    def result(self):
        return {
            "evaluations": self.evaluations, "distinct": sorted(self.distinct), "samples": self.samples,
            "violations": self.violations, "obs": self.obs, "monitor_evals": self.monitor_evals,
            "skipped": self.skipped, "inconclusive": self.inconclusive, "hard_inconclusive": self.hard_inconclusive[:20], "wall_s": time.time() - self.t0,
        }


def merge_obs(a, b):
    """Recursive merge: numbers add (keys starting with 'max_' take max), dicts merge, lists extend (set-like, capped)."""
    for k, v in b.items():
        if k not in a:
            a[k] = v
        elif isinstance(v, dict) and isinstance(a[k], dict):
            merge_obs(a[k], v)
        elif isinstance(v, (int, float)) and isinstance(a[k], (int, float)) and not isinstance(v, bool):
            a[k] = max(a[k], v) if k.startswith("max_") else (min(a[k], v) if k.startswith("min_") else a[k] + v)
        elif isinstance(v, list) and isinstance(a[k], list):
            for x in v:
                if x not in a[k] and len(a[k]) < 200:
                    a[k].append(x)
        else:
            a[k] = v
    return a
